package progen

import (
	"regexp"
	"sort"
	"strconv"
	"strings"
)

var setIDLine = regexp.MustCompile(`^"[^"]+"\.[A-Za-z_][A-Za-z0-9_]*$`)

// SetModel is what `wire show` must print for one top-level provider set.
type SetModel struct {
	Imports []string            // "path".Var of the named sets it includes (transitively)
	Groups  map[string][]string // group name ("no inputs" or sorted, comma-joined input types) -> sorted output types
}

// TypeString renders a type form the way go/types does with a nil qualifier.
func (m *Module) TypeString(r Ref) string {
	t := m.Types[r.Idx]
	if Unnamed(t.Kind) {
		e := m.TypeString(Ref{Idx: t.Elem})
		switch t.Kind {
		case "uslice":
			return "[]" + e
		case "uarray":
			return "[2]" + e
		case "umap":
			return "map[string]" + e
		case "uptr":
			return "*" + e
		case "uchan":
			return "chan " + e
		case "ustruct":
			return "struct{V " + e + "}"
		}
	}
	s := m.PkgImportPath(t.Pkg) + "." + t.Name
	if r.Ptr {
		return "*" + s
	}
	return s
}

func (m *Module) setID(s *Set) string {
	return strconv.Quote(m.PkgImportPath(s.Pkg)) + "." + s.Name
}

// provided lists the type forms the source of t provides.
func (m *Module) provided(t *Type) []Ref {
	switch t.Src.Kind {
	case "func":
		return []Ref{{Idx: t.Idx, Ptr: t.Ptr}}
	case "struct":
		return []Ref{{Idx: t.Idx}, {Idx: t.Idx, Ptr: true}}
	case "field":
		if t.Src.Parent.Ptr {
			return []Ref{{Idx: t.Idx}, {Idx: t.Idx, Ptr: true}}
		}
	}
	return []Ref{{Idx: t.Idx}}
}

// formDeps lists the type forms needed to obtain a provided form of t.
func (m *Module) formDeps(t *Type) []Ref {
	switch t.Src.Kind {
	case "func":
		return t.Src.Params
	case "struct":
		var out []Ref
		for _, f := range t.Fields {
			if !f.Prevent {
				out = append(out, f.Type)
			}
		}
		return out
	case "bind":
		return []Ref{t.Src.Concrete}
	case "field":
		return []Ref{t.Src.Parent}
	}
	return nil
}

// ShowModel computes the reference output structure of `wire show` for the
// top-level sets declared in packages with index >= fromPkg.
func (m *Module) ShowModel() map[string]SetModel {
	out := map[string]SetModel{}
	for _, s := range m.Sets {
		if s.Pkg < m.Ext {
			continue // not an initial package of `./...`
		}
		sm := SetModel{Groups: map[string][]string{}}
		name := m.setID(s)
		if s.AliasOf > 0 {
			// another name for the target: show lists the target itself as included, then everything the target includes
			tgt := m.Sets[s.AliasOf-1]
			sm.Imports = append(sm.Imports, m.setID(tgt))
			s = tgt
		}
		// named sets reachable
		var walk func(id int)
		seen := map[int]bool{}
		walk = func(id int) {
			for _, n := range m.Sets[id].Nested {
				if !seen[n] {
					seen[n] = true
					sm.Imports = append(sm.Imports, m.setID(m.Sets[n]))
					walk(n)
				}
			}
		}
		walk(s.ID)
		sort.Strings(sm.Imports)
		// provided forms
		prov := map[Ref]*Type{}
		for _, ti := range m.setClosure(s.ID) {
			t := m.Types[ti]
			if t.Dead {
				continue
			}
			for _, r := range m.provided(t) {
				prov[r] = t
			}
		}
		memo := map[Ref]map[string]bool{}
		var inputs func(r Ref) map[string]bool
		inputs = func(r Ref) map[string]bool {
			if v, ok := memo[r]; ok {
				return v
			}
			res := map[string]bool{}
			memo[r] = res
			for _, d := range m.formDeps(prov[r]) {
				if _, ok := prov[d]; ok {
					for k := range inputs(d) {
						res[k] = true
					}
				} else {
					res[m.TypeString(d)] = true
				}
			}
			return res
		}
		for r := range prov {
			in := inputs(r)
			name := "no inputs"
			if len(in) > 0 {
				var ks []string
				for k := range in {
					ks = append(ks, k)
				}
				sort.Strings(ks)
				name = strings.Join(ks, ", ")
			}
			sm.Groups[name] = append(sm.Groups[name], m.TypeString(r))
		}
		for k := range sm.Groups {
			sort.Strings(sm.Groups[k])
		}
		out[name] = sm
	}
	return out
}

// ShowInjectors lists the injectors `wire show ./...` must list.
func (m *Module) ShowInjectors() []string {
	var out []string
	for _, inj := range m.Injectors {
		out = append(out, strconv.Quote(m.PkgImportPath(inj.Pkg))+"."+inj.Name)
	}
	sort.Strings(out)
	return out
}

// ParseShow parses the stdout of `wire show`.
func ParseShow(stdout string) (map[string]SetModel, []string) {
	sets := map[string]SetModel{}
	var injectors []string
	cur, group := "", ""
	inInj := false
	for _, l := range strings.Split(stdout, "\n") {
		switch {
		case l == "":
		case l == "Injectors:":
			inInj = true
		case inInj && strings.HasPrefix(l, "\t"):
			injectors = append(injectors, strings.TrimSpace(l))
		case strings.HasPrefix(l, "\t\t\t"):
			// position line
		case strings.HasPrefix(l, "\t\t"):
			if cur != "" && group != "" {
				sm := sets[cur]
				sm.Groups[group] = append(sm.Groups[group], strings.TrimSpace(l))
				sets[cur] = sm
			}
		case cur == "" && strings.HasPrefix(l, "\t"):
			// belongs to a line that is not a set
		case strings.HasPrefix(l, "\tOutputs given "):
			group = strings.TrimSuffix(strings.TrimPrefix(l, "\tOutputs given "), ":")
			sm := sets[cur]
			if _, dup := sm.Groups[group]; dup {
				group += " (printed twice)"
			}
			sm.Groups[group] = nil
			sets[cur] = sm
		case strings.HasPrefix(l, "\t"):
			sm := sets[cur]
			sm.Imports = append(sm.Imports, strings.TrimSpace(l))
			sets[cur] = sm
		default:
			// a provider set is announced as "import/path".VarName at the start of a line; any other unindented
			// line (a banner, a per-package header, a summary) is not part of the structure the statement describes
			inInj = false
			if !setIDLine.MatchString(l) {
				cur, group = "", ""
				continue
			}
			cur = l
			group = ""
			sets[cur] = SetModel{Groups: map[string][]string{}}
		}
	}
	sort.Strings(injectors)
	for k, sm := range sets {
		sort.Strings(sm.Imports)
		for g := range sm.Groups {
			sort.Strings(sm.Groups[g])
		}
		sets[k] = sm
	}
	return sets, injectors
}
