package progen

import (
	"fmt"
	"sort"
	"strings"

	"verif/sim/internal/world"
)

// PkgImportPath is the import path of package i.
func (m *Module) PkgImportPath(i int) string {
	if i < m.Ext {
		return "dep.example/" + m.Pkgs[i].Path
	}
	return "example.com/" + m.Pkgs[i].Path
}

// SimrtPath is the import path of the run-time library.
func (m *Module) SimrtPath() string {
	if m.Ext > 0 {
		return "dep.example/simrt"
	}
	return "example.com/simrt"
}

// qual renders the name of type t as seen from package from, recording the import.
func (m *Module) qual(from int, t *Type, imports map[int]bool) string {
	if t.Pkg == from {
		return t.Name
	}
	imports[t.Pkg] = true
	return m.alias(from, t.Pkg) + "." + t.Name
}

// alias is the import name package `from` uses for package `of` (unique per file set).
func (m *Module) alias(from, of int) string {
	return fmt.Sprintf("q%d", of)
}

func (m *Module) typeExpr(from int, r Ref, imports map[int]bool) string {
	if t := m.Types[r.Idx]; Unnamed(t.Kind) {
		e := m.qual(from, m.Types[t.Elem], imports)
		switch t.Kind {
		case "uslice":
			return "[]" + e
		case "uarray":
			return "[2]" + e
		case "umap":
			return "map[string]" + e
		case "uptr":
			return "*" + e
		case "uchan":
			return "chan " + e
		case "ustruct":
			return "struct{ V " + e + " }"
		}
	}
	s := m.qual(from, m.Types[r.Idx], imports)
	if r.Ptr {
		return "*" + s
	}
	return s
}

func (m *Module) implName(from int, t *Type, imports map[int]bool) string {
	if t.Pkg == from {
		return "Impl" + t.Name
	}
	imports[t.Pkg] = true
	return m.alias(from, t.Pkg) + ".Impl" + t.Name
}

// underlying renders the declaration body of a non-struct type.
func underlying(kind string) string {
	switch kind {
	case "int":
		return "int"
	case "string":
		return "string"
	case "bool":
		return "bool"
	case "float":
		return "float64"
	case "slice":
		return "[]int"
	case "map":
		return "map[string]int"
	case "array":
		return "[2]int"
	case "func":
		return "func() int"
	case "chan":
		return "chan int"
	case "iface":
		return "interface{ VID() int }"
	}
	panic(kind)
}

// construct renders an expression of type ref r carrying identity idExpr.
// ctx: "call" inside a provider body (function literals allowed), "const" for wire.Value arguments.
func (m *Module) construct(from int, r Ref, idExpr string, imports map[int]bool, childIDs func(f Field) string) string {
	t := m.Types[r.Idx]
	if Unnamed(t.Kind) {
		te := m.typeExpr(from, r, imports)
		el := m.construct(from, Ref{Idx: t.Elem}, idExpr, imports, nil)
		switch t.Kind {
		case "uslice":
			return te + "{" + el + "}"
		case "uarray":
			return te + "{" + el + ", " + el + "}"
		case "umap":
			return te + "{\"k\": " + el + "}"
		case "uptr":
			return "func() " + te + " { v := " + el + "; return &v }()"
		case "uchan":
			return "make(" + te + ", 1)"
		case "ustruct":
			return te + "{V: " + el + "}"
		}
	}
	name := m.qual(from, t, imports)
	var e string
	switch t.Kind {
	case "struct":
		var fs []string
		if t.Src.Kind != "struct" {
			fs = append(fs, "ID: "+idExpr)
		}
		if childIDs != nil {
			for _, f := range t.Fields {
				if m.Types[f.Type.Idx].Dead {
					continue
				}
				if v := childIDs(f); v != "" {
					fs = append(fs, f.Name+": "+v)
				}
			}
		}
		e = name + "{" + strings.Join(fs, ", ") + "}"
		if r.Ptr {
			e = "&" + e
		}
		return e
	case "int", "float":
		e = name + "(" + idExpr + ")"
	case "string":
		e = name + "(simrt.Str(" + idExpr + "))"
	case "bool":
		e = name + "(true)"
	case "slice":
		e = name + "{" + idExpr + "}"
	case "map":
		e = name + "{\"id\": " + idExpr + "}"
	case "array":
		e = name + "{" + idExpr + ", 1}"
	case "func":
		e = name + "(simrt.Fn(" + idExpr + "))"
	case "chan":
		e = "make(" + name + ", 1)"
	case "iface":
		e = name + "(" + m.implName(from, t, imports) + "{ID: " + idExpr + "})"
	}
	return e
}

// constExpr renders the argument of wire.Value / InterfaceValue for type t.
func (m *Module) constExpr(from int, t *Type, imports map[int]bool) string {
	name := m.qual(from, t, imports)
	id := fmt.Sprint(t.Src.ConstID)
	if t.Src.ConstID%2 == 0 {
		// refer to package-level constants of the type's package instead of literals:
		// identifiers inside value expressions have to be re-qualified by wire
		c := fmt.Sprintf("Const%d", t.Idx)
		if t.Pkg != from {
			imports[t.Pkg] = true
			c = m.alias(from, t.Pkg) + "." + c
		}
		switch t.Kind {
		case "struct":
			return name + "{ID: " + c + "}"
		case "int", "float":
			return name + "(" + c + ")"
		case "slice":
			return name + "{" + c + ", " + c + "}"
		case "map":
			return name + "{\"id\": " + c + "}"
		case "array":
			return name + "{" + c + ", " + c + "}"
		case "iface":
			return m.implName(from, t, imports) + "{ID: " + c + "}"
		}
	}
	switch t.Kind {
	case "struct":
		return name + "{ID: " + id + "}"
	case "int", "float":
		return name + "(" + id + ")"
	case "string":
		return name + "(\"id:" + id + "\")"
	case "bool":
		return name + "(true)"
	case "slice":
		return name + "{" + id + "}"
	case "map":
		return name + "{\"id\": " + id + "}"
	case "array":
		return name + "{" + id + ", 1}"
	case "iface":
		return m.implName(from, t, imports) + "{ID: " + id + "}"
	}
	panic("no constant form for " + t.Kind)
}

func zeroExpr(kind string, ptr bool, name string) string {
	if ptr {
		return "nil"
	}
	switch kind {
	case "struct", "array":
		return name + "{}"
	case "int", "float":
		return "0"
	case "string":
		return `""`
	case "bool":
		return "false"
	}
	return "nil"
}

// HasDecoy reports whether package p declares the decoy d.
func HasDecoy(p *Pkg, d string) bool { return hasDecoy(p, d) }

func hasDecoy(p *Pkg, d string) bool {
	for _, x := range p.Decoys {
		if x == d {
			return true
		}
	}
	return false
}

// setExpr renders the wire.NewSet(...) expression of a set.
func (m *Module) setExpr(from int, s *Set, imports map[int]bool) string {
	var items []string
	for _, ti := range s.Members {
		if m.Types[ti].Dead {
			continue
		}
		items = append(items, m.item(from, m.Types[ti], imports))
	}
	for _, n := range s.Nested {
		ns := m.Sets[n]
		if ns.Pkg == from {
			items = append(items, ns.Name)
		} else {
			imports[ns.Pkg] = true
			items = append(items, m.alias(from, ns.Pkg)+"."+ns.Name)
		}
	}
	items = inlineGroups(items, s.Inline)
	return "wire.NewSet(" + strings.Join(items, ", ") + ")"
}

// inlineGroups wraps part of the items into k anonymous wire.NewSet(...) groups
// (the second one nested one level deeper); semantics are unchanged.
func inlineGroups(items []string, k int) []string {
	if k <= 0 || len(items) < 2 {
		return items
	}
	if k > len(items)-1 {
		k = len(items) - 1
	}
	groups := make([][]string, k+1)
	n := 0
	for _, it := range items {
		if strings.HasPrefix(it, "wire.Bind(") {
			// an anonymous group is a provider set of its own: a binding must stay where its concrete type is provided
			groups[0] = append(groups[0], it)
			continue
		}
		groups[n%(k+1)] = append(groups[n%(k+1)], it)
		n++
	}
	for gi := 1; gi <= k; gi++ {
		if len(groups[gi]) == 0 {
			return items
		}
	}
	out := append([]string{}, groups[0]...)
	for gi := 1; gi <= k; gi++ {
		g := "wire.NewSet(" + strings.Join(groups[gi], ", ") + ")"
		if gi == 2 {
			g = "wire.NewSet(" + g + ")"
		}
		out = append(out, g)
	}
	return out
}

// item renders one wire.Build / wire.NewSet argument for the source of type t.
func (m *Module) item(from int, t *Type, imports map[int]bool) string {
	switch t.Src.Kind {
	case "func":
		if t.Pkg == from {
			return t.Src.Name
		}
		imports[t.Pkg] = true
		return m.alias(from, t.Pkg) + "." + t.Src.Name
	case "struct":
		if t.Src.All {
			return fmt.Sprintf("wire.Struct(new(%s), \"*\")", m.qual(from, t, imports))
		}
		var fs []string
		for _, f := range t.Fields {
			if !f.Prevent {
				fs = append(fs, fmt.Sprintf("%q", f.Name))
			}
		}
		return fmt.Sprintf("wire.Struct(new(%s), %s)", m.qual(from, t, imports), strings.Join(fs, ", "))
	case "value":
		return "wire.Value(" + m.constExpr(from, t, imports) + ")"
	case "ifacevalue":
		return fmt.Sprintf("wire.InterfaceValue(new(%s), %s)", m.qual(from, t, imports), m.constExpr(from, t, imports))
	case "bind":
		return fmt.Sprintf("wire.Bind(new(%s), new(%s))", m.qual(from, t, imports), m.typeExpr(from, t.Src.Concrete, imports))
	case "field":
		return fmt.Sprintf("wire.FieldsOf(new(%s), %q)", m.typeExpr(from, t.Src.Parent, imports), t.Src.FieldName)
	}
	panic(t.Src.Kind)
}

func (m *Module) importBlock(from int, imports map[int]bool, extra []string, anon []string) string {
	var lines []string
	for _, e := range extra {
		lines = append(lines, fmt.Sprintf("\t%q", e))
	}
	var idx []int
	for i := range imports {
		idx = append(idx, i)
	}
	sort.Ints(idx)
	for _, i := range idx {
		lines = append(lines, fmt.Sprintf("\t%s %q", m.alias(from, i), m.PkgImportPath(i)))
	}
	for _, a := range anon {
		lines = append(lines, fmt.Sprintf("\t_ %q", a))
	}
	if len(lines) == 0 {
		return ""
	}
	return "import (\n" + strings.Join(lines, "\n") + "\n)\n\n"
}

// Files renders the whole module: the files of the main module example.com
// (workload packages, and the driver main package if withDriver) and the files
// of the dependency module dep.example (paths relative to their module roots).
func (m *Module) Files(withDriver bool) (app, ext []world.File) {
	for _, p := range m.Pkgs {
		fs := append([]world.File{m.renderTypes(p)}, m.renderInjectors(p)...)
		if p.Idx < m.Ext {
			ext = append(ext, fs...)
		} else {
			app = append(app, fs...)
		}
	}
	rt := world.File{Path: "simrt/simrt.go", Data: []byte(simrtSrc)}
	if !withDriver {
		rt.Data = []byte(simrtLiteSrc)
	}
	if m.Ext > 0 {
		ext = append(ext, rt)
	} else {
		app = append(app, rt)
	}
	if withDriver {
		app = append(app, m.renderDriver())
	}
	return app, ext
}

func (m *Module) renderTypes(p *Pkg) world.File {
	var b strings.Builder
	imports := map[int]bool{}
	needWire := false
	for _, d := range p.Decoys {
		switch d {
		case "err":
			if !hasDecoy(p, "errnil") {
				b.WriteString("var err error = simrt.DecoyErr\n\n")
			}
		case "errnil":
			// a package-level err that is nil, as in `var verbose, err = parseFlags()`
			b.WriteString("var err error\n\n")
		case "falseconst":
			b.WriteString("// a package may redeclare a predeclared identifier\nconst false = !(1 == 0)\n\n")
		case "cleanup":
			b.WriteString("var cleanup = func() { simrt.DecoyCleanup() }\n\n")
		case "v":
			b.WriteString("var v = 7\n\n")
		case "arg":
			b.WriteString("var arg = \"decoy\"\n\n")
		}
	}
	if !p.Facade {
		b.WriteString("var _ = simrt.Str\n\n")
	}
	for _, t := range m.Types {
		if t.Pkg == p.Idx && !t.Dead && (t.Src.Kind == "value" || t.Src.Kind == "ifacevalue") && t.Src.ConstID%2 == 0 {
			fmt.Fprintf(&b, "const Const%d = %d\n\n", t.Idx, t.Src.ConstID)
		}
	}
	for _, t := range m.Types {
		if t.Pkg != p.Idx || t.Dead {
			continue
		}
		// declaration
		switch t.Kind {
		case "struct":
			fmt.Fprintf(&b, "type %s struct {\n", t.Name)
			if t.Src.Kind != "struct" {
				b.WriteString("\tID int\n")
			}
			for _, f := range t.Fields {
				if m.Types[f.Type.Idx].Dead {
					continue
				}
				tag := ""
				if f.Prevent {
					tag = " `wire:\"-\"`"
				}
				fmt.Fprintf(&b, "\t%s %s%s\n", f.Name, m.typeExpr(p.Idx, f.Type, imports), tag)
			}
			b.WriteString("}\n\n")
			if t.Src.Kind != "struct" {
				fmt.Fprintf(&b, "func (x %s) VID() int { return x.ID }\n\n", t.Name)
			} else {
				fmt.Fprintf(&b, "func (x %s) VID() int { return 0 }\n\n", t.Name)
			}
		case "uslice", "uarray", "umap", "uptr", "uchan", "ustruct":
			// an unnamed type: nothing to declare
		default:
			fmt.Fprintf(&b, "type %s %s\n\n", t.Name, underlying(t.Kind))
			if t.Kind == "iface" {
				fmt.Fprintf(&b, "type Impl%s struct{ ID int }\n\nfunc (x Impl%s) VID() int { return x.ID }\n\n", t.Name, t.Name)
			}
		}
		// provider function
		if t.Src.Kind == "func" {
			var ps, args []string
			for i, pr := range t.Src.Params {
				te := m.typeExpr(p.Idx, pr, imports)
				if t.Src.Variadic && i == len(t.Src.Params)-1 {
					te = "..." + strings.TrimPrefix(te, "[]")
				}
				ps = append(ps, fmt.Sprintf("p%d %s", i, te))
				args = append(args, fmt.Sprintf("p%d", i))
			}
			res := Ref{Idx: t.Idx, Ptr: t.Ptr}
			rt := m.typeExpr(p.Idx, res, imports)
			results := rt
			switch {
			case t.Src.HasCleanup && t.Src.HasErr:
				results = "(" + rt + ", func(), error)"
			case t.Src.HasCleanup:
				results = "(" + rt + ", func())"
			case t.Src.HasErr:
				results = "(" + rt + ", error)"
			}
			if t.Src.ProvID%5 == 0 {
				// named results, one of them called like the identifiers wire generates
				switch {
				case t.Src.HasCleanup && t.Src.HasErr:
					results = "(v " + rt + ", cleanup func(), err error)"
				case t.Src.HasCleanup:
					results = "(v " + rt + ", cleanup func())"
				case t.Src.HasErr:
					results = "(v " + rt + ", err error)"
				default:
					results = "(v " + rt + ")"
				}
			}
			flags := 0
			if t.Src.HasErr {
				flags |= 1
			}
			if t.Src.HasCleanup {
				flags |= 2
			}
			fmt.Fprintf(&b, "func %s(%s) %s {\n", t.Src.Name, strings.Join(ps, ", "), results)
			argList := ""
			if len(args) > 0 {
				argList = ", " + strings.Join(args, ", ")
			}
			fmt.Fprintf(&b, "\th := simrt.Enter(%d, %d%s)\n\t_ = h\n", t.Src.ProvID, flags, argList)
			childIDs := func(f Field) string {
				ft := m.Types[f.Type.Idx]
				if ft.Src.Kind == "field" && ft.Src.Parent.Idx == t.Idx && ft.Src.FieldName == f.Name {
					return m.construct(p.Idx, f.Type, "h.Sub()", imports, nil)
				}
				return ""
			}
			val := m.construct(p.Idx, res, "h.ID()", imports, childIDs)
			zero := zeroExpr(t.Kind, t.Ptr, t.Name)
			if Unnamed(t.Kind) {
				zero = "nil"
				if t.Kind == "uarray" || t.Kind == "ustruct" {
					zero = rt + "{}"
				}
			}
			if t.Src.HasErr {
				b.WriteString("\tif h.Fail() {\n\t\tif h.Poison() {\n")
				poison := m.construct(p.Idx, res, "h.ID()", imports, nil)
				if t.Src.HasCleanup {
					fmt.Fprintf(&b, "\t\t\treturn %s, h.PoisonCleanup(), h.Err()\n\t\t}\n\t\treturn %s, nil, h.Err()\n\t}\n", poison, zero)
				} else {
					fmt.Fprintf(&b, "\t\t\treturn %s, h.Err()\n\t\t}\n\t\treturn %s, h.Err()\n\t}\n", poison, zero)
				}
			}
			switch {
			case t.Src.HasCleanup && t.Src.HasErr:
				fmt.Fprintf(&b, "\treturn %s, h.Cleanup(), nil\n", val)
			case t.Src.HasCleanup:
				fmt.Fprintf(&b, "\treturn %s, h.Cleanup()\n", val)
			case t.Src.HasErr:
				fmt.Fprintf(&b, "\treturn %s, nil\n", val)
			default:
				fmt.Fprintf(&b, "\treturn %s\n", val)
			}
			b.WriteString("}\n\n")
		}
	}
	skipNext := false
	for si, s := range m.Sets {
		if s.Pkg != p.Idx {
			continue
		}
		if skipNext {
			skipNext = false
			continue
		}
		if s.AliasOf > 0 {
			tgt := m.Sets[s.AliasOf-1]
			ref := tgt.Name
			if tgt.Pkg != p.Idx {
				imports[tgt.Pkg] = true
				ref = m.alias(p.Idx, tgt.Pkg) + "." + tgt.Name
			}
			fmt.Fprintf(&b, "var %s = %s\n\n", s.Name, ref)
			continue
		}
		needWire = true
		if s.Multi && si+1 < len(m.Sets) && m.Sets[si+1].Pkg == p.Idx && m.Sets[si+1].AliasOf == 0 && !m.Sets[si+1].Dup {
			a, bb := m.setExpr(p.Idx, s, imports), m.setExpr(p.Idx, m.Sets[si+1], imports)
			fmt.Fprintf(&b, "var %s, %s = %s, %s\n\n", s.Name, m.Sets[si+1].Name, a, bb)
			skipNext = true
			continue
		}
		var items []string
		for _, ti := range s.Members {
			if m.Types[ti].Dead {
				continue
			}
			items = append(items, m.item(p.Idx, m.Types[ti], imports))
		}
		if s.Dup && len(items) > 0 {
			items = append(items, items[0])
		}
		for _, n := range s.Nested {
			ns := m.Sets[n]
			if ns.Pkg == p.Idx {
				items = append(items, ns.Name)
			} else {
				imports[ns.Pkg] = true
				items = append(items, m.alias(p.Idx, ns.Pkg)+"."+ns.Name)
			}
		}
		if !s.Dup {
			items = inlineGroups(items, s.Inline)
		}
		if len(items) == 0 {
			fmt.Fprintf(&b, "var %s = wire.NewSet()\n\n", s.Name)
		} else {
			fmt.Fprintf(&b, "var %s = wire.NewSet(\n\t%s,\n)\n\n", s.Name, strings.Join(items, ",\n\t"))
		}
	}
	extra := []string{m.SimrtPath()}
	if p.Facade {
		extra = nil
	}
	if needWire {
		extra = append(extra, "github.com/google/wire")
	}
	head := "package " + p.Name + "\n\n" + m.importBlock(p.Idx, imports, extra, p.AnonT)
	return world.File{Path: p.Path + "/types.go", Data: []byte(head + b.String())}
}

// PkgGoFiles lists the base names of the Go files of package p that wire's loader sees (types.go and every
// injector file that holds at least one injector), in name order.
func (m *Module) PkgGoFiles(p *Pkg) []string {
	out := []string{"types.go"}
	for file := 0; file < p.NFiles; file++ {
		for _, inj := range m.Injectors {
			if inj.Pkg == p.Idx && inj.File == file {
				out = append(out, m.injectorFileName(p, file))
				break
			}
		}
	}
	sort.Strings(out)
	return out
}

func (m *Module) injectorFileName(p *Pkg, file int) string {
	if file == 0 {
		return "wire.go"
	}
	if file == 2 {
		return "zz_inject.go" // sorts after wire_gen.go (and after every other file of the package)
	}
	return fmt.Sprintf("inject_%d.go", file)
}

func (m *Module) renderInjectors(p *Pkg) []world.File {
	var out []world.File
	for file := 0; file < p.NFiles; file++ {
		var b strings.Builder
		imports := map[int]bool{}
		n := 0
		for _, inj := range m.Injectors {
			if inj.Pkg != p.Idx || inj.File != file {
				continue
			}
			n++
			if inj.Doc {
				fmt.Fprintf(&b, "// %s is an injector.\n// It has a two-line doc comment.\n", inj.Name)
			}
			var ps []string
			for i, pr := range inj.Params {
				te := m.typeExpr(p.Idx, pr.Type, imports)
				if inj.Variadic && i == len(inj.Params)-1 {
					te = "..." + strings.TrimPrefix(te, "[]")
				}
				if inj.Unnamed {
					ps = append(ps, te)
				} else {
					ps = append(ps, fmt.Sprintf("%s %s", pr.Name, te))
				}
			}
			rt := m.typeExpr(p.Idx, inj.Result, imports)
			results := rt
			switch {
			case inj.DeclCleanup && inj.DeclErr:
				results = "(" + rt + ", func(), error)"
			case inj.DeclCleanup:
				results = "(" + rt + ", func())"
			case inj.DeclErr:
				results = "(" + rt + ", error)"
			}
			var items []string
			for _, it := range inj.Build {
				if it.Set >= 0 {
					s := m.Sets[it.Set]
					if s.Pkg == p.Idx {
						items = append(items, s.Name)
					} else {
						imports[s.Pkg] = true
						items = append(items, m.alias(p.Idx, s.Pkg)+"."+s.Name)
					}
				} else {
					items = append(items, m.item(p.Idx, m.Types[it.Type], imports))
				}
			}
			items = inlineGroups(items, inj.Inline)
			fmt.Fprintf(&b, "func %s(%s) %s {\n", inj.Name, strings.Join(ps, ", "), results)
			build := "wire.Build(\n\t\t" + strings.Join(items, ",\n\t\t") + ",\n\t)"
			if len(items) == 0 {
				build = "wire.Build()"
			}
			if inj.Panic {
				fmt.Fprintf(&b, "\tpanic(%s)\n}\n\n", build)
			} else {
				t := m.Types[inj.Result.Idx]
				z := "nil"
				if !Unnamed(t.Kind) {
					z = zeroExpr(t.Kind, inj.Result.Ptr, m.qual(p.Idx, t, imports))
				} else if t.Kind == "uarray" || t.Kind == "ustruct" {
					z = rt + "{}"
				}
				ret := z
				if inj.DeclCleanup {
					ret += ", nil"
				}
				if inj.DeclErr {
					ret += ", nil"
				}
				fmt.Fprintf(&b, "\t%s\n\treturn %s\n}\n\n", build, ret)
			}
		}
		if n == 0 {
			continue
		}
		if file == 1 {
			// a function-local variable called like a package-level provider-set variable; inject_1.go sorts BEFORE
			// types.go, where the set is declared, so only another file order could let it get in the set's way
			for _, st := range m.Sets {
				if st.Pkg == p.Idx && st.AliasOf == 0 {
					fmt.Fprintf(&b, "// local%s is copied into the generated file.\nfunc local%s(n int) int {\n\tvar %s = n + 1\n\treturn %s\n}\n\n", st.Name, st.Name, st.Name, st.Name)
					break
				}
			}
		}
		if file == 0 && p.CopyFns >= 2 {
			// other kinds of declarations wire copies into the generated file
			fmt.Fprintf(&b, "// copiedT%d is copied into the generated file.\ntype copiedT%d struct{ cleanup, err int }\n\nconst copiedC%d = %d\n\nvar copiedV%d = copiedT%d{cleanup: copiedC%d}\n\n", p.Idx, p.Idx, p.Idx, p.Idx+3, p.Idx, p.Idx, p.Idx)
		}
		if file == 0 {
			for i := 0; i < p.CopyFns; i++ {
				// parameters named like the packages the generated file imports: wire has to rename these locals
				// (rewritePkgRefs walks its table of new names, a Go map, to avoid collisions among them)
				extraParams, extraSum := "", ""
				seenName := map[string]bool{p.Name: true, "err": true, "cleanup": true}
				for _, o := range m.Pkgs {
					if o.Idx < p.Idx && !seenName[o.Name] && !o.Facade && len(seenName) < 6 {
						seenName[o.Name] = true
						extraParams += ", " + o.Name + " int"
						extraSum += " + " + o.Name
					}
				}
				shadow := ""
				if extraParams != "" {
					// the same colliding name declared again in nested scopes: several distinct objects with one
					// name inside ONE copied declaration, each of which needs its own new name
					first := strings.Fields(strings.TrimPrefix(extraParams, ", "))[0]
					shadow += fmt.Sprintf("\tif err > %d {\n\t\t%s := %s + err\n\t\tfor i := 0; i < 2; i++ {\n\t\t\t%s := %s + i\n\t\t\terr += %s\n\t\t}\n\t\treturn %s\n\t}\n", i, first, first, first, first, first, first)
				}
				fmt.Fprintf(&b, "// copied%d is copied into the generated file.\nfunc copied%d_%d(err int%s) int {\n%s\tcleanup := err + %d%s\n\treturn cleanup\n}\n\n", i, p.Idx, i, extraParams, shadow, i, extraSum)
			}
		}
		var anon []string
		if file == 0 {
			anon = p.Anon
		} else if len(p.Anon) > 0 {
			anon = p.Anon[:1] // the same blank import in a second injector file: it must appear once in the output
		}
		cgo := ""
		if p.Cgo && file == 0 {
			cgo = "/*\n#cgo LDFLAGS: -lm\n*/\nimport \"C\"\n\n"
		}
		lineDir := ""
		if p.LineDir && file > 0 {
			// as a template expander would leave it: the position of everything below is reported as inject.tmpl:N
			lineDir = "//line inject.tmpl:1\n"
		}
		head := lineDir + "//go:build wireinject\n// +build wireinject\n\npackage " + p.Name + "\n\n" + cgo + m.importBlock(p.Idx, imports, []string{"github.com/google/wire"}, anon)
		out = append(out, world.File{Path: p.Path + "/" + m.injectorFileName(p, file), Data: []byte(head + b.String())})
	}
	return out
}

// InjKey names an injector for the driver.
func (m *Module) InjKey(inj *Injector) string {
	return fmt.Sprintf("%s.%s", m.Pkgs[inj.Pkg].Path, inj.Name)
}

func (m *Module) renderDriver() world.File {
	var b strings.Builder
	imports := map[int]bool{}
	var body strings.Builder
	for _, inj := range m.Injectors {
		imports[inj.Pkg] = true
		var args []string
		for i, pr := range inj.Params {
			a := m.construct(-1, pr.Type, "simrt.ArgID()", imports, nil)
			if inj.Variadic && i == len(inj.Params)-1 {
				a += "..."
			}
			args = append(args, a)
		}
		call := fmt.Sprintf("%s.%s(%s)", m.alias(-1, inj.Pkg), inj.Name, strings.Join(args, ", "))
		fmt.Fprintf(&body, "\tsimrt.Register(%q, func() {\n", m.InjKey(inj))
		switch {
		case inj.DeclCleanup && inj.DeclErr:
			fmt.Fprintf(&body, "\t\tv, c, e := %s\n\t\tsimrt.Result(&v, true, c, true, e)\n", call)
		case inj.DeclCleanup:
			fmt.Fprintf(&body, "\t\tv, c := %s\n\t\tsimrt.Result(&v, true, c, false, nil)\n", call)
		case inj.DeclErr:
			fmt.Fprintf(&body, "\t\tv, e := %s\n\t\tsimrt.Result(&v, false, nil, true, e)\n", call)
		default:
			fmt.Fprintf(&body, "\t\tv := %s\n\t\tsimrt.Result(&v, false, nil, false, nil)\n", call)
		}
		body.WriteString("\t})\n")
	}
	b.WriteString("package main\n\n")
	b.WriteString(m.importBlock(-1, imports, []string{m.SimrtPath()}, nil))
	b.WriteString("func main() {\n")
	b.WriteString(body.String())
	b.WriteString("\tsimrt.Main()\n}\n")
	return world.File{Path: "driver/main.go", Data: []byte(b.String())}
}
