// Package progen generates accepted-by-construction wire programs (a module
// of several packages) whose function providers are owned by the simulator.
package progen

import (
	"fmt"
	"math/rand/v2"
	"sort"
)

// Kinds of workload types.
var Kinds = []string{"struct", "int", "string", "bool", "float", "slice", "map", "array", "func", "chan", "iface"}

// Ref refers to a type in its value or pointer form.
type Ref struct {
	Idx int  `json:"i"`
	Ptr bool `json:"p,omitempty"`
}

// Field is an extra field of a struct type.
type Field struct {
	Name    string `json:"name"`
	Type    Ref    `json:"type"`
	Prevent bool   `json:"prevent,omitempty"` // tagged `wire:"-"` (wire.Struct "*" must skip it)
}

// Source says how a type gets provided.
type Source struct {
	Kind       string `json:"kind"` // func | struct | value | ifacevalue | bind | field
	Name       string `json:"name,omitempty"` // provider function name
	Params     []Ref  `json:"params,omitempty"`
	HasErr     bool   `json:"err,omitempty"`
	HasCleanup bool   `json:"cleanup,omitempty"`
	Variadic   bool   `json:"variadic,omitempty"` // the last parameter (an unnamed slice type) is written ...Elem
	All        bool   `json:"all,omitempty"`      // wire.Struct(new(S), "*")
	Concrete   Ref    `json:"concrete,omitempty"` // bind
	Parent     Ref    `json:"parent,omitempty"`   // field: the struct (Ptr = FieldsOf(new(*S)))
	FieldName  string `json:"field,omitempty"`
	ProvID     int    `json:"prov,omitempty"`
	Home       int    `json:"home"` // named set holding this source, -1 = none
	ConstID    int    `json:"const,omitempty"`
}

// Type is one named type of the workload.
type Type struct {
	Idx    int     `json:"idx"`
	Pkg    int     `json:"pkg"`
	Name   string  `json:"name"`
	Kind   string  `json:"kind"`
	Ptr    bool    `json:"ptr,omitempty"` // func-provided struct handed around as *T
	Fields []Field `json:"fields,omitempty"`
	Elem   int     `json:"elem,omitempty"` // unnamed kinds (uslice []E, uarray [2]E, umap map[string]E, uptr *E, uchan chan E, ustruct struct{ V E }): index of the element type
	Src    Source  `json:"src"`
	Dead   bool    `json:"dead,omitempty"` // pruned by the minimiser: not rendered
}

// Set is a named provider set variable.
type Set struct {
	ID      int    `json:"id"`
	Pkg     int    `json:"pkg"`
	Name    string `json:"name"`
	Members []int  `json:"members"` // type indices whose source lives here
	Nested  []int  `json:"nested"`  // set ids
	Parent  int    `json:"parent"`  // -1 = root
	AliasOf int    `json:"aliasof,omitempty"` // 1+id of the set this variable is just another name for (var A = B); 0 = none
	Multi   bool   `json:"multi,omitempty"`   // declared together with the next set of the package in one var spec: var A, B = ..., ...
	Inline  int    `json:"inline,omitempty"` // number of anonymous inline wire.NewSet(...) groups the items are split into
	Dup     bool   `json:"dup,omitempty"` // malformed on purpose: first member listed twice (multiple bindings); used by no injector
}

// Item is one argument of wire.Build.
type Item struct {
	Set  int `json:"set"`  // set id, or -1
	Type int `json:"type"` // type index whose source is passed directly, or -1
}

// Param is an injector parameter.
type Param struct {
	Name string `json:"name"`
	Type Ref    `json:"type"`
}

// Injector is one injector template.
type Injector struct {
	Pkg         int     `json:"pkg"`
	File        int     `json:"file"` // which injector file of the package
	Name        string  `json:"name"`
	Params      []Param `json:"params"`
	Result      Ref     `json:"result"`
	DeclCleanup bool    `json:"cleanup"`
	DeclErr     bool    `json:"err"`
	Build       []Item  `json:"build"`
	Inline      int     `json:"inline,omitempty"` // inline wire.NewSet(...) groups inside wire.Build
	Panic       bool    `json:"panic,omitempty"`
	Doc         bool    `json:"doc,omitempty"`
	Unnamed     bool    `json:"unnamed,omitempty"`  // parameters written without names: func Init(T1, string) T
	Variadic    bool    `json:"variadic,omitempty"` // the last parameter (an unnamed slice type) is written name ...Elem
	// derived, for the driver and the reach probes
	NeedCleanups int `json:"ncleanups"`
	NeedErrs     int `json:"nerrs"`
}

// Pkg is one package.
type Pkg struct {
	Idx     int      `json:"idx"`
	Path    string   `json:"path"` // below example.com/
	Name    string   `json:"name"`
	Decoys  []string `json:"decoys,omitempty"`
	Anon    []string `json:"anon,omitempty"` // _ imports in injector files
	AnonT   []string `json:"anont,omitempty"` // _ imports in the package's ordinary file (types.go): wire copies those into wire_gen.go too
	NoInj   bool     `json:"noinj,omitempty"` // deliberately without injectors (a dependency of packages that have some)
	NFiles  int      `json:"nfiles"`         // number of injector files
	CopyFns int      `json:"copyfns,omitempty"`
	LineDir bool     `json:"linedir,omitempty"` // every injector file but the first starts with the same relative //line directive (generated-from-template style)
	Cgo     bool     `json:"cgo,omitempty"`    // the first injector file imports "C": the loader parses cgo's translated copy in the build cache
	Facade  bool     `json:"facade,omitempty"` // declares nothing but alias variables of other packages' sets: no wire import, no injectors
}

// Module is a whole workload.
type Module struct {
	Ext       int         `json:"ext,omitempty"` // the first Ext packages (and simrt) live in the dependency module dep.example
	Pkgs      []*Pkg      `json:"pkgs"`
	Types     []*Type     `json:"types"`
	Sets      []*Set      `json:"sets"`
	Injectors []*Injector `json:"injectors"`
}

// Knobs are the swarm parameters of one module.
type Knobs struct {
	NPkgs      int
	NTypes     int
	ErrPct     int
	CleanupPct int
	FanIn      int
	NSets      int
	InjPerPkg  int
	Adversary  bool // adversarial naming pool
	ValuePct   int
	ArgPct     int
	Chain      bool // long dependency chains (deep cleanup stacks)
	ExtPkgs    int  // leading packages placed in the dependency module (vendored in vendor layouts)
	Leafy      bool // many providers without parameters at every depth: leaves that come LATE in the call plan
	LeafClean  bool // only parameterless providers return cleanups (a resource opened from nothing), the others may only fail
}

// RandomKnobs draws swarm parameters.
func RandomKnobs(r *rand.Rand, big bool) Knobs {
	k := Knobs{
		NPkgs:      1 + r.IntN(5),
		NTypes:     6 + r.IntN(20),
		ErrPct:     []int{0, 30, 60, 90}[r.IntN(4)],
		CleanupPct: []int{0, 15, 30, 60, 100}[r.IntN(5)],
		Leafy:      r.IntN(4) == 0,
		LeafClean:  r.IntN(4) == 0,
		FanIn:      1 + r.IntN(4),
		NSets:      r.IntN(6),
		InjPerPkg:  1 + r.IntN(4),
		Adversary:  r.IntN(3) == 0,
		ValuePct:   []int{0, 10, 30}[r.IntN(3)],
		ArgPct:     []int{0, 10, 25}[r.IntN(3)],
		Chain:      r.IntN(4) == 0,
	}
	if big {
		k.NTypes = 20 + r.IntN(40)
		k.InjPerPkg = 2 + r.IntN(4)
	}
	if k.ErrPct == 0 && k.CleanupPct == 0 {
		k.ErrPct = 60
	}
	return k
}

var adversarialTypeNames = []string{"Err", "Cleanup", "Select", "Var", "Func", "Type", "Range", "Map", "Chan", "Go", "Defer", "Error", "String", "Int", "Bool", "Nil", "True", "Len", "New", "Wire", "Context", "Arg", "V", "Foo", "Foo2", "Foo_2", "FOO", "Panic", "Import", "Package"}

var adversarialParamNames = []string{"err", "cleanup", "cleanup2", "err2", "arg", "v", "string_", "select_", "t0", "t1", "wire_", "p0", "q_0"}

var anonPool = []string{"embed", "unicode/utf8", "sort", "errors", "strings", "unicode", "math/bits"}

// Generate draws a module.
func Generate(r *rand.Rand, k Knobs) *Module {
	m := &Module{}
	if k.ExtPkgs > 0 && k.NPkgs > 1 {
		m.Ext = minInt(k.ExtPkgs, k.NPkgs-1)
	}
	usedPaths := map[string]bool{}
	for i := 0; i < k.NPkgs; i++ {
		p := &Pkg{Idx: i}
		p.Name = fmt.Sprintf("p%d", i)
		p.Path = p.Name
		if k.Adversary && i > 0 && r.IntN(2) == 0 {
			// same package name under two paths
			p.Name = m.Pkgs[r.IntN(i)].Name
			p.Path = fmt.Sprintf("d%d/%s", i, p.Name)
		}
		if i < m.Ext && r.IntN(2) == 0 {
			// a dependency whose import path has an element that merely ENDS in "vendor": in vendor layouts the loader
			// reports it as example.com/vendor/dep.example/govendor/pN, and un-vendoring must cut at the vendor ELEMENT
			p.Path = "govendor/" + p.Name
		}
		if r.IntN(6) == 0 {
			// the directory (last element of the import path) is not the package name
			p.Path = fmt.Sprintf("x%d/dir-of-%s.v%d", i, p.Name, i)
		}
		if usedPaths[p.Path] {
			p.Path = fmt.Sprintf("d%d/%s", i, p.Name)
		}
		usedPaths[p.Path] = true
		if k.Adversary {
			for _, d := range []string{"err", "errnil", "cleanup", "v", "arg"} {
				if r.IntN(3) == 0 {
					p.Decoys = append(p.Decoys, d)
				}
			}
			if r.IntN(3) == 0 {
				// a predeclared identifier redeclared at package scope (legal Go)
				p.Decoys = append(p.Decoys, "falseconst")
			}
		}
		na := r.IntN(4)
		perm := r.Perm(len(anonPool))
		for j := 0; j < na; j++ {
			p.Anon = append(p.Anon, anonPool[perm[j]])
		}
		p.NFiles = 1 + r.IntN(3)
		p.CopyFns = r.IntN(3)
		if r.IntN(3) == 0 {
			p.AnonT = append(p.AnonT, anonPool[r.IntN(len(anonPool))])
			if r.IntN(2) == 0 {
				p.AnonT = append(p.AnonT, "container/list")
			}
		}
		// a package without injectors that later packages depend on (never the last one)
		p.NoInj = i+1 < k.NPkgs && r.IntN(6) == 0
		p.LineDir = r.IntN(5) == 0
		m.Pkgs = append(m.Pkgs, p)
	}
	nameUsed := map[string]bool{}
	prov := 0
	// which struct types were handed a child field (func-provided structs only)
	for idx := 0; idx < k.NTypes; idx++ {
		t := &Type{Idx: idx, Pkg: idx * k.NPkgs / k.NTypes}
		t.Name = fmt.Sprintf("T%d", idx)
		if k.Adversary && r.IntN(3) == 0 {
			n := adversarialTypeNames[r.IntN(len(adversarialTypeNames))]
			key := fmt.Sprintf("%d/%s", t.Pkg, n)
			if !nameUsed[key] {
				nameUsed[key] = true
				t.Name = n
			}
		}
		t.Kind = weighted(r, Kinds, []int{40, 10, 6, 3, 3, 5, 4, 4, 5, 3, 17})
		t.Src.Home = -1
		earlier := m.Types
		// unnamed composite types over an earlier element type: []E (so that variadic providers have
		// something to take), [2]E, map[string]E, *E, chan E, struct{ V E } — their zero values and
		// their names in generated code are spelled out by wire, with E's package qualifier
		if r.IntN(9) == 0 {
			ukind := weighted(r, []string{"uslice", "uarray", "umap", "uptr", "uchan", "ustruct"}, []int{40, 15, 12, 10, 8, 15})
			var elems []int
			for _, e := range earlier {
				okElem := e.Kind == "int" || e.Kind == "string" || e.Kind == "struct" && e.Src.Kind != "struct" && ukind != "uptr"
				if ukind == "uptr" && e.Src.Kind == "field" {
					okElem = false // FieldsOf(new(*S), ...) provides *E itself
				}
				if okElem && e.Pkg <= t.Pkg {
					dup := false
					for _, o := range earlier {
						if o.Kind == ukind && o.Elem == e.Idx {
							dup = true
						}
					}
					if !dup {
						elems = append(elems, e.Idx)
					}
				}
			}
			if len(elems) > 0 {
				t.Kind = ukind
				t.Elem = elems[r.IntN(len(elems))]
				t.Name = fmt.Sprintf("%sOf%d", export(ukind[1:]), t.Elem)
			}
		}
		var concretes []int // func-provided struct types (can be bound, can be field parents)
		var parents []int // possible field parents: same package (the parent's package must be able to name the child type)
		for _, e := range earlier {
			if e.Kind == "struct" && e.Src.Kind == "func" {
				concretes = append(concretes, e.Idx)
				if e.Pkg == t.Pkg {
					parents = append(parents, e.Idx)
				}
			}
			if e.Kind == "struct" && (e.Src.Kind == "struct" || e.Src.Kind == "value") {
				// an interface may also be bound to a struct built by wire.Struct (either form) or given as a wire.Value
				concretes = append(concretes, e.Idx)
			}
		}
		pickParams := func(max int) []Ref {
			var ps []Ref
			if len(earlier) == 0 || max == 0 {
				return nil
			}
			n := r.IntN(max + 1)
			if k.Leafy && r.IntN(2) == 0 {
				n = 0
			}
			if k.Chain && n == 0 {
				n = 1
			}
			seen := map[int]bool{}
			for j := 0; j < n; j++ {
				var e *Type
				if k.Chain && j == 0 {
					e = earlier[len(earlier)-1] // depend on the previous type: long chains
				} else {
					e = earlier[r.IntN(len(earlier))]
				}
				if seen[e.Idx] {
					continue
				}
				seen[e.Idx] = true
				ps = append(ps, m.formFor(r, e))
			}
			return ps
		}
		srcKind := "func"
		switch t.Kind {
		case "struct":
			srcKind = weighted(r, []string{"func", "struct", "value"}, []int{65, 25, k.ValuePct / 2})
			if srcKind == "struct" && len(earlier) == 0 {
				srcKind = "func"
			}
		case "iface":
			srcKind = weighted(r, []string{"bind", "ifacevalue", "func"}, []int{50, 20, 30})
			if srcKind == "bind" && len(concretes) == 0 {
				srcKind = "func"
			}
		case "uslice", "uarray", "umap", "uptr", "uchan", "ustruct":
			srcKind = "func"
		case "func", "chan":
			srcKind = "func"
			if len(parents) > 0 && r.IntN(6) == 0 {
				srcKind = "field"
			}
		default:
			srcKind = weighted(r, []string{"func", "value", "field"}, []int{60, k.ValuePct, 15})
			if srcKind == "field" && len(parents) == 0 {
				srcKind = "func"
			}
		}
		t.Src.Kind = srcKind
		switch srcKind {
		case "func":
			prov++
			t.Src.ProvID = prov
			t.Src.Name = "New" + t.Name
			if r.IntN(4) == 0 {
				t.Src.Name = "Provide" + t.Name
			}
			t.Src.Params = pickParams(k.FanIn)
			// a parameter of unnamed slice type goes last and may be written variadic
			for i, pr := range t.Src.Params {
				if m.Types[pr.Idx].Kind == "uslice" {
					last := len(t.Src.Params) - 1
					t.Src.Params[i], t.Src.Params[last] = t.Src.Params[last], t.Src.Params[i]
					t.Src.Variadic = r.IntN(3) > 0
					break
				}
			}
			t.Src.HasErr = r.IntN(100) < k.ErrPct
			t.Src.HasCleanup = r.IntN(100) < k.CleanupPct
			if k.LeafClean {
				t.Src.HasCleanup = len(t.Src.Params) == 0 && r.IntN(100) < 35
				t.Src.HasErr = r.IntN(100) < 60
			}
			if t.Kind == "struct" {
				t.Ptr = r.IntN(2) == 0
			}
		case "struct":
			ps := pickParams(k.FanIn + 1)
			if len(ps) == 0 {
				ps = []Ref{m.formFor(r, earlier[r.IntN(len(earlier))])}
			}
			t.Src.Params = ps
			for j, p := range ps {
				t.Fields = append(t.Fields, Field{Name: fmt.Sprintf("F%d", j), Type: p})
			}
			t.Src.All = r.IntN(3) == 0
			if t.Src.All && r.IntN(2) == 0 {
				// a prevented field: "*" must skip it
				e := earlier[r.IntN(len(earlier))]
				t.Fields = append(t.Fields, Field{Name: "Skipped", Type: Ref{Idx: e.Idx, Ptr: e.Ptr}, Prevent: true})
			}
		case "value", "ifacevalue":
			t.Src.ConstID = 100 + idx
		case "bind":
			c := m.Types[concretes[r.IntN(len(concretes))]]
			t.Src.Concrete = m.formFor(r, c)
		case "field":
			par := m.Types[parents[r.IntN(len(parents))]]
			t.Src.Parent = Ref{Idx: par.Idx, Ptr: par.Ptr}
			t.Src.FieldName = fmt.Sprintf("Child%d", idx)
			par.Fields = append(par.Fields, Field{Name: t.Src.FieldName, Type: Ref{Idx: idx}})
		}
		m.Types = append(m.Types, t)
	}
	// named sets: a forest; every source has at most one home
	for s := 0; s < k.NSets; s++ {
		set := &Set{ID: s, Pkg: r.IntN(k.NPkgs), Parent: -1}
		set.Name = fmt.Sprintf("Set%d", s)
		if k.Adversary && r.IntN(3) == 0 {
			set.Name = fmt.Sprintf("Err%dSet", s)
		}
		var cand []int
		for _, t := range m.Types {
			if t.Pkg <= set.Pkg && t.Src.Home == -1 && t.Src.Kind != "bind" {
				cand = append(cand, t.Idx)
			}
		}
		r.Shuffle(len(cand), func(i, j int) { cand[i], cand[j] = cand[j], cand[i] })
		n := 0
		if len(cand) > 0 {
			n = 1 + r.IntN(minInt(len(cand), 6))
		}
		for _, ti := range cand[:n] {
			set.Members = append(set.Members, ti)
			m.Types[ti].Src.Home = s
		}
		for _, o := range m.Sets {
			if o.Parent == -1 && o.Pkg <= set.Pkg && r.IntN(3) == 0 {
				o.Parent = s
				set.Nested = append(set.Nested, o.ID)
			}
		}
		if len(set.Members) == 0 && len(set.Nested) == 0 {
			continue
		}
		sort.Ints(set.Members)
		if r.IntN(3) == 0 {
			set.Inline = 1 + r.IntN(3)
		}
		m.Sets = append(m.Sets, set)
	}
	// re-number set ids to positions (some were skipped)
	remap := map[int]int{}
	for i, s := range m.Sets {
		remap[s.ID] = i
	}
	for i, s := range m.Sets {
		s.ID = i
		if s.Parent >= 0 {
			s.Parent = remap[s.Parent]
		}
		for j := range s.Nested {
			s.Nested[j] = remap[s.Nested[j]]
		}
	}
	for _, t := range m.Types {
		if t.Src.Home >= 0 {
			t.Src.Home = remap[t.Src.Home]
		}
	}
	// bindings may live next to their concrete type's source
	for _, t := range m.Types {
		if t.Src.Kind == "bind" {
			h := m.Types[t.Src.Concrete.Idx].Src.Home
			if h >= 0 && m.Sets[h].Pkg >= t.Pkg && r.IntN(2) == 0 {
				t.Src.Home = h
				m.Sets[h].Members = append(m.Sets[h].Members, t.Idx)
			}
		}
	}
	// alias variables (var A = B) and multi-name declarations: only `wire show` / `wire check` see them
	nsets := len(m.Sets)
	for i := 0; i < nsets; i++ {
		s := m.Sets[i]
		if r.IntN(5) == 0 {
			// same package as the target: for a cross-package alias wire labels the set with the TARGET's package path and the alias name, a quirk this model does not want to encode
			pk := s.Pkg
			m.Sets = append(m.Sets, &Set{ID: len(m.Sets), Pkg: pk, Name: fmt.Sprintf("Alias%dOf%s", len(m.Sets), s.Name), Parent: -1, AliasOf: 1 + s.ID})
		}
	}
	for i := 0; i+1 < nsets; i++ {
		if m.Sets[i].Pkg == m.Sets[i+1].Pkg && !m.Sets[i].Multi && (i == 0 || !m.Sets[i-1].Multi) && r.IntN(4) == 0 {
			// the later set may nest the earlier one, never the other way round: both initialisers are independent expressions
			m.Sets[i].Multi = true
		}
	}
	// injectors
	for _, p := range m.Pkgs {
		if p.Idx < m.Ext || p.NoInj {
			continue // no injectors in the dependency module
		}
		for j := 0; j < k.InjPerPkg; j++ {
			if inj := m.genInjector(r, k, p, j); inj != nil {
				m.Injectors = append(m.Injectors, inj)
			}
		}
	}
	return m
}

// formFor picks the form (value / pointer) in which a consumer receives type e.
func (m *Module) formFor(r *rand.Rand, e *Type) Ref {
	switch {
	case e.Kind == "struct" && e.Src.Kind == "func":
		return Ref{Idx: e.Idx, Ptr: e.Ptr}
	case e.Kind == "struct" && e.Src.Kind == "struct":
		// wire.Struct provides both S and *S; remember the first choice so that all
		// consumers agree (two forms in one injector are legal but make two values)
		// ... mostly: now and then a consumer asks for the other form, so that one injector builds both S and *S
		return Ref{Idx: e.Idx, Ptr: (e.Idx%2 == 0) != (r.IntN(8) == 0)}
	}
	return Ref{Idx: e.Idx}
}

func (m *Module) setRoot(s int) int {
	for m.Sets[s].Parent >= 0 {
		s = m.Sets[s].Parent
	}
	return s
}

func (m *Module) deps(t *Type) []Ref {
	switch t.Src.Kind {
	case "func", "struct":
		return t.Src.Params
	case "bind":
		return []Ref{t.Src.Concrete}
	case "field":
		return []Ref{t.Src.Parent}
	}
	return nil
}

func (m *Module) genInjector(r *rand.Rand, k Knobs, p *Pkg, j int) *Injector {
	var cand []*Type
	for _, t := range m.Types {
		if t.Pkg <= p.Idx {
			cand = append(cand, t)
		}
	}
	if len(cand) == 0 {
		return nil
	}
	// prefer late types: larger closures
	var target *Type
	if r.IntN(3) > 0 {
		target = cand[len(cand)-1-r.IntN(minInt(len(cand), 4))]
	} else {
		target = cand[r.IntN(len(cand))]
	}
	if hasDecoy(p, "falseconst") && j == 0 {
		// in a package that redeclares false, one injector returns a bool if a fallible one can be had
		for _, t := range cand {
			if t.Kind == "bool" && t.Src.Kind == "func" && t.Src.HasErr {
				target = t
			}
		}
	}
	inj := &Injector{Pkg: p.Idx, File: r.IntN(p.NFiles), Name: fmt.Sprintf("Init%s%d", export(p.Name), j)}
	inj.Result = m.formFor(r, target)
	// closure
	needed := map[int]bool{}
	cut := map[int]Ref{}
	var order []int
	var visit func(ref Ref, root bool)
	visit = func(ref Ref, root bool) {
		t := m.Types[ref.Idx]
		if needed[t.Idx] {
			return
		}
		if _, ok := cut[t.Idx]; ok {
			return
		}
		if !root && t.Src.Home == -1 && t.Src.Kind == "func" && r.IntN(100) < k.ArgPct {
			cut[t.Idx] = ref
			return
		}
		needed[t.Idx] = true
		for _, d := range m.deps(t) {
			visit(d, false)
		}
		order = append(order, t.Idx)
	}
	visit(inj.Result, true)
	// a bind that lives in a set drags its set in; its concrete type must not be cut (it has a home, so it is not)
	var cutIdx []int
	for i := range cut {
		cutIdx = append(cutIdx, i)
	}
	sort.Ints(cutIdx)
	usedNames := map[string]bool{}
	for n, i := range cutIdx {
		name := fmt.Sprintf("a%d", n)
		if k.Adversary && r.IntN(2) == 0 {
			name = adversarialParamNames[r.IntN(len(adversarialParamNames))]
		}
		if r.IntN(8) == 0 {
			name = "_"
		}
		if k.Adversary && j > 0 && name != "_" && m.Types[i].Kind == "func" {
			// a CALLABLE parameter named like the generated cleanup local, in a later injector of the package: this
			// injector's cleanup locals are renamed (cleanup2, ...) while its neighbours keep the default names, so
			// text shared between injectors calls the parameter (seeded change C03-12). No PRNG draw: every other
			// generated shape stays what it was.
			name = "cleanup"
		}
		if name != "_" && usedNames[name] {
			name = fmt.Sprintf("a%d", n)
		}
		usedNames[name] = true
		inj.Params = append(inj.Params, Param{Name: name, Type: cut[i]})
	}
	// a parameter of unnamed slice type goes last and may be written variadic; all parameters may go unnamed
	for i, pr := range inj.Params {
		if m.Types[pr.Type.Idx].Kind == "uslice" {
			last := len(inj.Params) - 1
			inj.Params[i], inj.Params[last] = inj.Params[last], inj.Params[i]
			inj.Variadic = r.IntN(2) == 0
			break
		}
	}
	if len(inj.Params) > 0 && r.IntN(8) == 0 {
		inj.Unnamed = true
	}
	// build list
	rootsSeen := map[int]bool{}
	for _, ti := range order {
		t := m.Types[ti]
		if t.Src.Home >= 0 {
			root := m.setRoot(t.Src.Home)
			if m.Sets[root].Pkg > p.Idx {
				// the set is declared in a later package: cannot be imported from here
				return nil
			}
			if !rootsSeen[root] {
				rootsSeen[root] = true
				inj.Build = append(inj.Build, Item{Set: root, Type: -1})
			}
			continue
		}
		inj.Build = append(inj.Build, Item{Set: -1, Type: ti})
	}
	// an included set must not provide a type that is also an injector argument or a direct item
	for root := range rootsSeen {
		for _, ti := range m.setClosure(root) {
			if _, ok := cut[ti]; ok {
				return nil
			}
		}
	}
	r.Shuffle(len(inj.Build), func(a, b int) { inj.Build[a], inj.Build[b] = inj.Build[b], inj.Build[a] })
	for _, ti := range order {
		t := m.Types[ti]
		if t.Src.Kind == "func" {
			if t.Src.HasCleanup {
				inj.NeedCleanups++
			}
			if t.Src.HasErr {
				inj.NeedErrs++
			}
		}
	}
	inj.DeclCleanup = inj.NeedCleanups > 0 || r.IntN(5) == 0
	inj.DeclErr = inj.NeedErrs > 0 || r.IntN(5) == 0
	inj.Panic = r.IntN(3) == 0
	if r.IntN(4) == 0 {
		inj.Inline = 1 + r.IntN(2)
	}
	inj.Doc = r.IntN(4) == 0
	return inj
}

// setClosure lists the type indices whose sources are reachable from set s.
func (m *Module) setClosure(s int) []int {
	var out []int
	out = append(out, m.Sets[s].Members...)
	for _, n := range m.Sets[s].Nested {
		out = append(out, m.setClosure(n)...)
	}
	return out
}

func weighted(r *rand.Rand, names []string, weights []int) string {
	tot := 0
	for _, w := range weights {
		tot += w
	}
	if tot == 0 {
		return names[0]
	}
	x := r.IntN(tot)
	for i, w := range weights {
		if x < w {
			return names[i]
		}
		x -= w
	}
	return names[len(names)-1]
}

func minInt(a, b int) int {
	if a < b {
		return a
	}
	return b
}

// Unnamed reports whether kind is one of the unnamed composite kinds.
func Unnamed(kind string) bool {
	switch kind {
	case "uslice", "uarray", "umap", "uptr", "uchan", "ustruct":
		return true
	}
	return false
}

func export(s string) string {
	if s == "" {
		return s
	}
	b := []byte(s)
	if b[0] >= 'a' && b[0] <= 'z' {
		b[0] -= 32
	}
	return string(b)
}

// PruneTo marks every type the injector does not need as dead and drops the other injectors.
func (m *Module) PruneTo(inj *Injector) {
	need := map[int]bool{}
	var visit func(r Ref)
	visit = func(r Ref) {
		if need[r.Idx] {
			return
		}
		need[r.Idx] = true
		t := m.Types[r.Idx]
		for _, d := range m.deps(t) {
			visit(d)
		}
	}
	visit(inj.Result)
	for _, p := range inj.Params {
		need[p.Type.Idx] = true
	}
	// parents of needed field children stay alive through deps; children of needed parents may die
	for _, t := range m.Types {
		if !need[t.Idx] {
			t.Dead = true
		}
	}
	m.Injectors = []*Injector{inj}
}

// Mutate turns an accepted module into one with a known defect (for the
// check-vs-gen agreement runs of C19). It returns "" if the mutation kind does
// not apply to this module.
func (m *Module) Mutate(r *rand.Rand, kind string) string {
	if len(m.Injectors) == 0 {
		return ""
	}
	inj := m.Injectors[r.IntN(len(m.Injectors))]
	switch kind {
	case "missing":
		var direct []int
		for i, it := range inj.Build {
			if it.Set < 0 && m.Types[it.Type].Src.Kind != "bind" {
				direct = append(direct, i)
			}
		}
		if len(direct) == 0 {
			return ""
		}
		i := direct[r.IntN(len(direct))]
		inj.Build = append(append([]Item{}, inj.Build[:i]...), inj.Build[i+1:]...)
		return "missing"
	case "multi":
		for _, it := range inj.Build {
			if it.Set < 0 && m.Types[it.Type].Src.Kind == "func" {
				inj.Build = append(inj.Build, it)
				return "multi"
			}
		}
		return ""
	case "unused":
		used := map[int]bool{}
		for _, it := range inj.Build {
			if it.Set >= 0 {
				for _, ti := range m.setClosure(it.Set) {
					used[ti] = true
				}
			} else {
				used[it.Type] = true
			}
		}
		for _, p := range inj.Params {
			used[p.Type.Idx] = true
		}
		// anything the closure needs is "used" too: walk deps of listed items
		var mark func(ti int)
		mark = func(ti int) {
			for _, d := range m.deps(m.Types[ti]) {
				if !used[d.Idx] {
					used[d.Idx] = true
					mark(d.Idx)
				}
			}
		}
		for ti := range used {
			mark(ti)
		}
		for _, t := range m.Types {
			if !used[t.Idx] && t.Pkg <= inj.Pkg && t.Src.Home == -1 && t.Src.Kind == "func" {
				inj.Build = append(inj.Build, Item{Set: -1, Type: t.Idx})
				return "unused"
			}
		}
		return ""
	case "sigerr":
		for _, in := range m.Injectors {
			if in.NeedErrs > 0 {
				in.DeclErr = false
				return "sigerr"
			}
		}
		return ""
	case "sigcleanup":
		for _, in := range m.Injectors {
			if in.NeedCleanups > 0 {
				in.DeclCleanup = false
				return "sigcleanup"
			}
		}
		return ""
	case "badset":
		for _, t := range m.Types {
			if t.Src.Kind == "func" && t.Pkg >= m.Ext {
				m.Sets = append(m.Sets, &Set{ID: len(m.Sets), Pkg: t.Pkg, Name: "MalformedUnusedSet", Members: []int{t.Idx}, Parent: -1, Dup: true})
				return "badset"
			}
		}
		return ""
	}
	return ""
}

// AddFacade appends a package that re-exports provider sets of other packages
// under its own names (var Storage = dep.Set) and declares nothing else: it
// never imports the wire package, yet its variables are top-level provider
// sets that `wire show` / `wire check` have to report.
func (m *Module) AddFacade(r *rand.Rand) {
	var cands []int
	for _, s := range m.Sets {
		if s.AliasOf == 0 && !s.Dup {
			cands = append(cands, s.ID)
		}
	}
	if len(cands) == 0 {
		return
	}
	p := &Pkg{Idx: len(m.Pkgs), Path: "fac", Name: "fac", Facade: true}
	m.Pkgs = append(m.Pkgs, p)
	n := 1 + r.IntN(2)
	for i := 0; i < n; i++ {
		tgt := m.Sets[cands[r.IntN(len(cands))]]
		m.Sets = append(m.Sets, &Set{ID: len(m.Sets), Pkg: p.Idx, Name: fmt.Sprintf("Fac%dOf%s", i, tgt.Name), Parent: -1, AliasOf: 1 + tgt.ID})
	}
}

// AddSharedValue appends a small structure to the module: a wire.Value whose
// expression is an identifier-only list, declared in a set of its own package
// "shv", consumed by injectors of two other packages, one of which also uses a
// second package that is also NAMED shv — so the generated files of the two
// consumers give the value's package different import names.
func (m *Module) AddSharedValue() {
	np := len(m.Pkgs)
	nt := len(m.Types)
	prov := 0
	for _, t := range m.Types {
		if t.Src.ProvID > prov {
			prov = t.Src.ProvID
		}
	}
	a := &Pkg{Idx: np, Path: "shv", Name: "shv", NFiles: 1}
	b := &Pkg{Idx: np + 1, Path: "alt/shv", Name: "shv", NFiles: 1}
	x := &Pkg{Idx: np + 2, Path: "shx", Name: "shx", NFiles: 1}
	y := &Pkg{Idx: np + 3, Path: "shy", Name: "shy", NFiles: 1}
	m.Pkgs = append(m.Pkgs, a, b, x, y)
	setID := len(m.Sets)
	v := &Type{Idx: nt, Pkg: a.Idx, Name: "Hosts", Kind: "slice", Src: Source{Kind: "value", ConstID: 1000 + 2*nt, Home: setID}}
	w := &Type{Idx: nt + 1, Pkg: b.Idx, Name: "Legacy", Kind: "struct", Src: Source{Kind: "func", Name: "NewLegacy", ProvID: prov + 1, Home: -1}}
	zx := &Type{Idx: nt + 2, Pkg: x.Idx, Name: "AppX", Kind: "struct", Ptr: true, Src: Source{Kind: "func", Name: "NewAppX", ProvID: prov + 2, Params: []Ref{{Idx: nt}}, Home: -1}}
	zy := &Type{Idx: nt + 3, Pkg: y.Idx, Name: "AppY", Kind: "struct", Ptr: true, Src: Source{Kind: "func", Name: "NewAppY", ProvID: prov + 3, Params: []Ref{{Idx: nt + 1}, {Idx: nt}}, HasErr: true, Home: -1}}
	m.Types = append(m.Types, v, w, zx, zy)
	m.Sets = append(m.Sets, &Set{ID: setID, Pkg: a.Idx, Name: "HostSet", Members: []int{nt}, Parent: -1})
	m.Injectors = append(m.Injectors,
		&Injector{Pkg: x.Idx, Name: "InitShx", Result: Ref{Idx: nt + 2, Ptr: true}, Build: []Item{{Set: setID, Type: -1}, {Set: -1, Type: nt + 2}}},
		&Injector{Pkg: y.Idx, Name: "InitShy", Result: Ref{Idx: nt + 3, Ptr: true}, DeclErr: true, NeedErrs: 1, Build: []Item{{Set: -1, Type: nt + 1}, {Set: setID, Type: -1}, {Set: -1, Type: nt + 3}}},
	)
}
