package engb

import (
	"bytes"
	"fmt"
	"os"
	"path/filepath"

	"verif/sim/internal/common"
	"verif/sim/internal/world"
)

// Transparency compares the untouched cmd/wire with the instrumented one
// (without a plan, and with an all-ascending fault-free plan) on the corpus
// and on generated modules: identical exit status, stderr and bytes.
func Transparency(b *common.Build) int {
	st := &Stats{}
	names := corpusNames(b)
	ngen := common.CasesOverride(40)
	total := len(names) + ngen
	scratch := filepath.Join(b.Root, "cases")
	os.MkdirAll(scratch, 0777)
	type res struct {
		name string
		bad  string
	}
	results := common.ParallelMap(total, common.Workers(), func(i int) res {
		r := common.Rng(99, i)
		var c *Case
		name := ""
		if i < ngen {
			c = GenCase(r, false)
			name = fmt.Sprintf("generated #%d", i)
		} else {
			c = CorpusCase(r, names[i-ngen], false)
			name = "corpus " + names[i-ngen]
		}
		var p *program
		if c.Kind == "gen" {
			p = &program{target: []string{"./..."}}
			p.app, p.ext = c.Module.Files(false)
			for _, pk := range c.Module.Pkgs {
				if pk.Idx >= c.Module.Ext {
					p.pkgs = append(p.pkgs, pk.Path)
				}
			}
		} else {
			var err error
			p, err = loadCorpus(b, c.Corpus)
			if err != nil {
				return res{name, "unreadable: " + err.Error()}
			}
		}
		dir := filepath.Join(scratch, fmt.Sprintf("t%d", i))
		os.MkdirAll(dir, 0777)
		defer os.RemoveAll(dir)
		type variant struct {
			bin  string
			plan *world.Plan
		}
		vs := []variant{{b.WireReal, nil}, {b.WireSim, nil}, {b.WireSim, &world.Plan{Seed: 1, Iter: "asc"}}, {b.WireSim, &world.Plan{Seed: 1, Iter: "native"}}}
		var ref *runResult
		for vi, v := range vs {
			rootDir := filepath.Join(dir, fmt.Sprintf("v%d", vi))
			os.MkdirAll(rootDir, 0777)
			files := p.app
			if len(p.header) > 0 {
				files = append(append([]world.File{}, files...), world.File{Path: "hdr.txt", Data: p.header})
			}
			w, err := world.New(rootDir, world.LayoutMod, "", b.MarkerGo, files, p.ext...)
			if err != nil {
				return res{name, err.Error()}
			}
			args := []string{"gen"}
			if len(p.header) > 0 {
				args = append(args, "-header_file", filepath.Join(w.AppDir, "hdr.txt"))
			}
			args = append(args, p.target...)
			r := w.Exec(v.bin, w.AppDir, v.plan, dir, nil, args...)
			st.Runs.Add("wire_gen", 1)
			rr := &runResult{exit: r.Exit, stderr: w.Scrub(r.Stderr), outputs: map[string][]byte{}}
			for _, pd := range p.pkgs {
				if data, err := os.ReadFile(filepath.Join(w.AppDir, filepath.FromSlash(pd), "wire_gen.go")); err == nil {
					rr.outputs[pd] = data
				}
			}
			os.RemoveAll(rootDir)
			if vi == 0 {
				ref = rr
				continue
			}
			if rr.exit != ref.exit {
				return res{name, fmt.Sprintf("variant %d: exit %d vs %d", vi, rr.exit, ref.exit)}
			}
			// diagnostics may legitimately be permuted by iteration order only under "native" vs real: compare as sets of lines
			if lineSet(rr.stderr) != lineSet(ref.stderr) {
				return res{name, fmt.Sprintf("variant %d: stderr differs:\n%s\nvs\n%s", vi, rr.stderr, ref.stderr)}
			}
			if len(rr.outputs) != len(ref.outputs) {
				return res{name, fmt.Sprintf("variant %d: %d outputs vs %d", vi, len(rr.outputs), len(ref.outputs))}
			}
			for k, d := range ref.outputs {
				if !bytes.Equal(d, rr.outputs[k]) {
					return res{name, fmt.Sprintf("variant %d: bytes of %s differ: %s", vi, k, firstDiff(d, rr.outputs[k]))}
				}
			}
		}
		return res{name, ""}
	})
	bad := 0
	for _, r := range results {
		if r.bad != "" {
			bad++
			fmt.Printf("TRANSPARENCY FAILURE: %s: %s\n", r.name, r.bad)
		}
	}
	if bad > 0 {
		return common.ExitInfra
	}
	fmt.Printf("transparency self-test passed: %d programs x {real, instrumented without plan, asc plan, native plan}: identical exit status, diagnostics and bytes\n", len(results))
	return 0
}

func lineSet(s string) string {
	lines := map[string]int{}
	cur := ""
	for _, l := range bytes.Split([]byte(s), []byte("\n")) {
		cur = string(l)
		lines[cur]++
	}
	var keys []string
	for k, n := range lines {
		keys = append(keys, fmt.Sprintf("%s x%d", k, n))
	}
	sortStrings(keys)
	return fmt.Sprint(keys)
}
