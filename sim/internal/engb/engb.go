// Package engb is engine B: the generation-determinism simulator (C16).
// For one program it runs `wire gen` under a baseline configuration and under
// seeded variations of everything the output must not depend on: iteration
// order of every map walk, checkout location, cwd and package pattern, which
// packages share the invocation, dependency layout, repeat, clock and
// environment noise — and compares the bytes of every wire_gen.go.
package engb

import (
	"bytes"
	"crypto/sha256"
	"encoding/hex"
	"fmt"
	"math/rand/v2"
	"os"
	"os/exec"
	"path/filepath"
	"sort"
	"strings"
	"sync"

	"verif/sim/internal/common"
	"verif/sim/internal/progen"
	"verif/sim/internal/world"
)

// Config is one configuration of a generation run.
type Config struct {
	Iter     string            `json:"iter"`
	Sites    map[string]string `json:"sites,omitempty"`
	Sub      string            `json:"sub,omitempty"`     // path between the scratch root and the tree
	Symlink  bool              `json:"symlink,omitempty"` // reach the tree through a symlink
	Layout   string            `json:"layout"`
	Cwd      string            `json:"cwd,omitempty"`      // package path relative to the module root ("" = root)
	Patterns []string          `json:"patterns,omitempty"` // {ROOT} is replaced by the absolute module root
	Clock    int64             `json:"clock"`
	Pid      int               `json:"pid"`
	Host     string            `json:"host"`
	Noise    bool              `json:"noise,omitempty"` // HOME/USER/TMPDIR/LANG changed
	Label    string            `json:"label"`
}

// Case is one program and its configurations. Configs[0] is the baseline.
type Case struct {
	Kind      string         `json:"kind"` // gen | corpus
	Module    *progen.Module `json:"module,omitempty"`
	Corpus    string         `json:"corpus,omitempty"`
	Configs   []Config       `json:"configs"`
	Header    string         `json:"header,omitempty"`    // -header_file content for generated programs
	Tags      string         `json:"tags,omitempty"`      // -tags value, the same in every configuration of the case (a fixed option)
	AutoSites bool           `json:"autosites,omitempty"` // add one single-site flip per site reached with >= 2 keys in the baseline
}

// Stats of a batch.
type Stats struct {
	Counts    common.Counter
	Schedules common.Set // distinct (program, realised schedule) digests
	Pairs     common.Set // distinct non-baseline (program, configuration) pairs
	SiteMax   common.Counter
	Runs      common.Counter
}

// Outcome of a case.
type Outcome struct {
	Verdicts []common.Verdict
	Log      []string
	Infra    string
	Skipped  string
	Runs     int
}

type program struct {
	app, ext []world.File
	pkgs     []string // package directories (relative to the module root) that may get an output
	header   []byte
	tags     string
	target   []string // default patterns
	digest   string
}

func baseline() Config {
	return Config{Iter: "asc", Layout: world.LayoutMod, Clock: 1000000000, Pid: 4242, Host: "basehost", Label: "baseline"}
}

func loadCorpus(b *common.Build, name string) (*program, error) {
	root := filepath.Join(b.Tree, "internal", "wire", "testdata", name)
	pkgb, err := os.ReadFile(filepath.Join(root, "pkg"))
	if err != nil {
		return nil, err
	}
	p := &program{}
	p.header, _ = os.ReadFile(filepath.Join(root, "header"))
	pat := strings.TrimSpace(string(pkgb))
	p.target = []string{pat}
	dirs := map[string]bool{}
	err = filepath.Walk(root, func(src string, info os.FileInfo, err error) error {
		if err != nil {
			return err
		}
		rel, _ := filepath.Rel(root, src)
		if info.IsDir() && rel == "want" {
			return filepath.SkipDir
		}
		if !info.Mode().IsRegular() || filepath.Ext(src) != ".go" {
			return nil
		}
		data, err := os.ReadFile(src)
		if err != nil {
			return err
		}
		p.app = append(p.app, world.File{Path: filepath.ToSlash(rel), Data: data})
		dirs[filepath.ToSlash(filepath.Dir(rel))] = true
		return nil
	})
	for d := range dirs {
		p.pkgs = append(p.pkgs, d)
	}
	sort.Strings(p.pkgs)
	return p, err
}

func digestFiles(fs ...[]world.File) string {
	h := sha256.New()
	for _, l := range fs {
		for _, f := range l {
			fmt.Fprintf(h, "%s\x00%d\x00", f.Path, len(f.Data))
			h.Write(f.Data)
		}
	}
	return hex.EncodeToString(h.Sum(nil)[:8])
}

type runResult struct {
	exit    int
	stderr  string
	outputs map[string][]byte // package dir -> bytes
	trace   []string
	root    string
	appDir  string
}

func runConfig(b *common.Build, st *Stats, p *program, cfg Config, dir string, n int) (*runResult, string) {
	rootDir := filepath.Join(dir, fmt.Sprintf("r%d", n))
	if err := os.MkdirAll(rootDir, 0777); err != nil {
		return nil, err.Error()
	}
	defer os.RemoveAll(rootDir)
	files := p.app
	if len(p.header) > 0 {
		files = append(append([]world.File{}, files...), world.File{Path: "hdr.txt", Data: p.header})
	}
	w, err := world.New(rootDir, cfg.Layout, cfg.Sub, b.MarkerGo, files, p.ext...)
	if err != nil {
		return nil, "world: " + err.Error()
	}
	appDir := w.AppDir
	if cfg.Symlink {
		link := filepath.Join(rootDir, "lnk")
		// link to the parent that holds app/ (and dep/) so that relative replace paths keep working
		if err := os.Symlink(filepath.Dir(w.AppDir), link); err != nil {
			return nil, err.Error()
		}
		appDir = filepath.Join(link, filepath.Base(w.AppDir))
	}
	cwd := appDir
	if cfg.Cwd != "" {
		cwd = filepath.Join(appDir, filepath.FromSlash(cfg.Cwd))
	}
	args := []string{"gen"}
	if len(p.header) > 0 {
		args = append(args, "-header_file", filepath.Join(appDir, "hdr.txt"))
	}
	if p.tags != "" {
		args = append(args, "-tags", p.tags)
	}
	pats := cfg.Patterns
	if len(pats) == 0 {
		pats = p.target
	}
	for _, pt := range pats {
		args = append(args, strings.ReplaceAll(pt, "{ROOT}", appDir))
	}
	plan := &world.Plan{Seed: uint64(n + 1), Iter: cfg.Iter, Sites: cfg.Sites, Clock: cfg.Clock, Pid: cfg.Pid, Host: cfg.Host}
	var extra []string
	if cfg.Noise {
		extra = append(extra, "HOME="+filepath.Join(rootDir, "other home"), "USER=someone-else", "LOGNAME=someone-else", "TMPDIR="+rootDir, "LANG=de_DE.UTF-8", "TZ=Pacific/Kiritimati", "PWD="+cwd, fmt.Sprintf("GOMAXPROCS=%d", 1+n%3), "WIRE_DEBUG=1", "CI=true", "GOAMD64=v1", "EDITOR=ed", "XDG_CACHE_HOME="+filepath.Join(rootDir, "xdg"))
		os.MkdirAll(filepath.Join(rootDir, "other home"), 0777)
		if n%2 == 1 {
			// build tags in the environment's GOFLAGS (wire's own -tags=wireinject on the go list command line
			// overrides them, so they select no other files): environment, not an option of the invocation
			gf := "-tags=integration,e2e"
			if cfg.Layout == world.LayoutModVendor {
				gf = "-mod=vendor " + gf
			}
			extra = append(extra, "GOFLAGS="+gf)
		}
	}
	res := w.Exec(b.WireSim, cwd, plan, dir, extra, args...)
	st.Runs.Add("wire_gen", 1)
	if res.TimedOut {
		return nil, "watchdog: wire gen timed out (" + cfg.Label + ")"
	}
	if res.Exit == 97 {
		return nil, "verifsim: " + res.Stderr
	}
	rr := &runResult{exit: res.Exit, stderr: w.Scrub(res.Stderr), outputs: map[string][]byte{}, trace: res.Trace, root: rootDir, appDir: w.AppDir}
	for _, pd := range p.pkgs {
		if data, err := os.ReadFile(filepath.Join(w.AppDir, filepath.FromSlash(pd), "wire_gen.go")); err == nil {
			rr.outputs[pd] = data
		}
	}
	return rr, ""
}

// targeted reports which package dirs a configuration's patterns cover (nil = all).
func targeted(cfg Config, p *program) map[string]bool {
	if len(cfg.Patterns) == 0 {
		return nil
	}
	t := map[string]bool{}
	for _, pt := range cfg.Patterns {
		switch {
		case pt == "./..." && cfg.Cwd == "", pt == "example.com/...", pt == "{ROOT}/...":
			return nil
		case pt == "." || pt == "./..." || strings.HasSuffix(pt, ".go"):
			t[cfg.Cwd] = true
		case strings.HasPrefix(pt, "./"):
			t[filepath.ToSlash(filepath.Clean(filepath.Join(filepath.FromSlash(cfg.Cwd), filepath.FromSlash(pt[2:]))))] = true
		case strings.HasPrefix(pt, "example.com/"):
			t[pt[len("example.com/"):]] = true
		case strings.HasPrefix(pt, "{ROOT}/"):
			t[pt[len("{ROOT}/"):]] = true
		default:
			return nil
		}
	}
	return t
}

func scheduleDigest(trace []string) (string, map[string]int) {
	h := sha256.New()
	sites := map[string]int{}
	for _, l := range trace {
		if !strings.HasPrefix(l, "iter ") {
			continue
		}
		var site string
		n := 0
		for _, f := range strings.Fields(l) {
			if strings.HasPrefix(f, "site=") {
				site = f[5:]
			}
			if strings.HasPrefix(f, "n=") {
				fmt.Sscan(f[2:], &n)
			}
		}
		if n >= 2 {
			h.Write([]byte(l))
			if n > sites[site] {
				sites[site] = n
			}
		}
	}
	return hex.EncodeToString(h.Sum(nil)[:8]), sites
}

func cfgDigest(c Config) string {
	return fmt.Sprintf("%s|%v|%s|%v|%s|%s|%v|%d|%d|%s|%v", c.Iter, c.Sites, c.Sub, c.Symlink, c.Layout, c.Cwd, c.Patterns, c.Clock, c.Pid, c.Host, c.Noise)
}

// RunCase executes all configurations of a case and compares with the baseline.
func RunCase(b *common.Build, st *Stats, c *Case, dir string) *Outcome {
	out := &Outcome{}
	logf := func(f string, a ...interface{}) { out.Log = append(out.Log, fmt.Sprintf(f, a...)) }
	var p *program
	switch c.Kind {
	case "gen":
		p = &program{target: []string{"./..."}}
		p.app, p.ext = c.Module.Files(false)
		p.header = []byte(c.Header)
		p.tags = c.Tags
		for _, pk := range c.Module.Pkgs {
			if pk.Idx >= c.Module.Ext {
				p.pkgs = append(p.pkgs, pk.Path)
			}
		}
	case "corpus":
		var err error
		p, err = loadCorpus(b, c.Corpus)
		if err != nil {
			out.Skipped = "corpus case unreadable: " + err.Error()
			return out
		}
	}
	p.digest = digestFiles(p.app, p.ext)
	if len(c.Configs) == 0 {
		out.Skipped = "no configurations"
		return out
	}
	base, infra := runConfig(b, st, p, c.Configs[0], dir, 0)
	if infra != "" {
		out.Infra = infra
		return out
	}
	out.Runs++
	if base.exit != 0 && c.Kind == "gen" {
		out.Skipped = "rejected_by_wire: " + firstLines(base.stderr, 5)
		return out
	}
	bd, sites := scheduleDigest(base.trace)
	st.Schedules.Add(p.digest + "/" + bd)
	for s, n := range sites {
		if n > st.SiteMax.Get(s) {
			st.SiteMax.Add(s, n-st.SiteMax.Get(s))
		}
	}
	logf("baseline: exit=%d outputs=%d schedule=%s sites>=2: %v", base.exit, len(base.outputs), bd, sites)
	for pd, data := range base.outputs {
		if bytes.Contains(data, []byte(base.root)) {
			out.Verdicts = append(out.Verdicts, common.Verdict{Property: "C16", Clause: "D2", Disc: "absolute-path-in-output", Expected: "no run-specific data", Observed: "the scratch root appears in " + pd + "/wire_gen.go", Detail: "baseline"})
		}
	}
	cfgs := append([]Config{}, c.Configs[1:]...)
	if c.AutoSites {
		var ss []string
		for s := range sites {
			ss = append(ss, s)
		}
		sort.Strings(ss)
		for _, s := range ss {
			cfg := c.Configs[0]
			cfg.Sites = map[string]string{s: "desc"}
			cfg.Label = "flip only " + s
			cfgs = append(cfgs, cfg)
		}
	}
	for i, cfg := range cfgs {
		rr, infra := runConfig(b, st, p, cfg, dir, i+1)
		if infra != "" {
			out.Infra = infra
			return out
		}
		out.Runs++
		d, sites := scheduleDigest(rr.trace)
		st.Schedules.Add(p.digest + "/" + d)
		st.Pairs.Add(p.digest + "/" + cfgDigest(cfg))
		for s, n := range sites {
			if n > st.SiteMax.Get(s) {
				st.SiteMax.Add(s, n-st.SiteMax.Get(s))
			}
		}
		st.Counts.Add("config_"+strings.SplitN(cfg.Label, " ", 2)[0], 1)
		tg := targeted(cfg, p)
		diffs := 0
		for _, pd := range p.pkgs {
			if tg != nil && !tg[pd] {
				continue
			}
			want, wok := base.outputs[pd]
			got, gok := rr.outputs[pd]
			if wok != gok || !bytes.Equal(want, got) {
				diffs++
				obs := "different bytes: " + firstDiff(want, got)
				if wok && !gok {
					obs = "no output (exit " + fmt.Sprint(rr.exit) + ": " + firstLines(rr.stderr, 2) + ")"
				}
				if !wok && gok {
					obs = "an output although the baseline produced none"
				}
				out.Verdicts = append(out.Verdicts, common.Verdict{Property: "C16", Clause: "D1", Disc: "output-depends-on-" + dimension(cfg), Expected: "bytes of the baseline run", Observed: obs, Detail: fmt.Sprintf("package %s, configuration %q", pd, cfg.Label)})
				break
			}
		}
		logf("config %q: exit=%d diffs=%d schedule=%s", cfg.Label, rr.exit, diffs, d)
		if diffs == 0 {
			st.Counts.Add("configs_equal_to_baseline", 1)
		}
	}
	return out
}

// dimension names the dimension in which cfg differs from the baseline (first one).
func dimension(c Config) string {
	b := baseline()
	switch {
	case c.Iter != b.Iter || len(c.Sites) > 0:
		return "iteration-order"
	case c.Layout != b.Layout:
		return "dependency-layout"
	case c.Sub != "" || c.Symlink:
		return "checkout-location"
	case c.Cwd != "" || len(c.Patterns) > 0:
		return "invocation"
	case c.Clock != b.Clock || c.Pid != b.Pid || c.Host != b.Host || c.Noise:
		return "clock-or-environment"
	}
	return "repeat"
}

func firstDiff(a, b []byte) string {
	la, lb := strings.Split(string(a), "\n"), strings.Split(string(b), "\n")
	for i := 0; i < len(la) && i < len(lb); i++ {
		if la[i] != lb[i] {
			return fmt.Sprintf("line %d: %q vs %q", i+1, clip(la[i], 100), clip(lb[i], 100))
		}
	}
	return fmt.Sprintf("lengths %d vs %d lines", len(la), len(lb))
}

func clip(s string, n int) string {
	if len(s) > n {
		return s[:n] + "..."
	}
	return s
}

func firstLines(s string, n int) string {
	lines := strings.Split(strings.TrimSpace(s), "\n")
	if len(lines) > n {
		lines = append(lines[:n], "...")
	}
	return strings.Join(lines, " | ")
}

var subs = []string{"deep/er/path/than/before", "with space", "vendor/inside", "ünï-cödé", "a/vendor/b", "x"}

// GenConfigs draws the non-baseline configurations for a program with the given package dirs.
func GenConfigs(r *rand.Rand, pkgs []string, n int, layouts bool) []Config {
	var out []Config
	add := func(c Config) { out = append(out, c) }
	b := baseline()
	// always: the two cheapest, strongest schedule flips
	c := b
	c.Iter, c.Label = "desc", "iter desc"
	add(c)
	for len(out) < n {
		c := b
		switch r.IntN(9) {
		case 0, 1:
			c.Iter = fmt.Sprintf("shuffle:%d", r.IntN(100000))
			c.Label = "iter " + c.Iter
		case 2:
			c.Sub = subs[r.IntN(len(subs))]
			c.Symlink = r.IntN(3) == 0
			c.Label = fmt.Sprintf("location %s symlink=%v", c.Sub, c.Symlink)
		case 3:
			if len(pkgs) == 0 {
				continue
			}
			pd := pkgs[r.IntN(len(pkgs))]
			switch r.IntN(5) {
			case 4:
				// from inside one package, naming another one by a relative path that climbs out with ..
				other := pkgs[r.IntN(len(pkgs))]
				rel, err := filepath.Rel(filepath.FromSlash(pd), filepath.FromSlash(other))
				if err != nil || other == pd {
					c.Cwd, c.Patterns = pd, []string{"."}
				} else {
					c.Cwd, c.Patterns = pd, []string{"./" + filepath.ToSlash(rel)}
				}
			case 0:
				c.Cwd, c.Patterns = pd, []string{"."}
			case 1:
				c.Patterns = []string{"example.com/" + pd}
			case 2:
				c.Patterns = []string{"{ROOT}/" + pd}
			case 3:
				c.Patterns = []string{"./" + pd}
			}
			c.Label = fmt.Sprintf("invocation cwd=%q %v", c.Cwd, c.Patterns)
		case 4:
			if len(pkgs) < 2 {
				continue
			}
			// explicit list in reverse / shuffled order, possibly a subset
			perm := r.Perm(len(pkgs))
			k := 1 + r.IntN(len(pkgs))
			for _, i := range perm[:k] {
				c.Patterns = append(c.Patterns, "./"+pkgs[i])
			}
			c.Label = fmt.Sprintf("invocation list %v", c.Patterns)
		case 5:
			if !layouts {
				continue
			}
			c.Layout = []string{world.LayoutGopath, world.LayoutGopathVendor, world.LayoutModVendor}[r.IntN(3)]
			c.Label = "layout " + c.Layout
		case 6:
			c.Label = "repeat"
		case 7:
			c.Clock = []int64{0, 2000000000, 4000000000, 946684799}[r.IntN(4)]
			c.Pid = 1 + r.IntN(60000)
			c.Host = fmt.Sprintf("node-%d.example.org", r.IntN(1000))
			c.Noise = r.IntN(2) == 0
			c.Label = fmt.Sprintf("clock %d pid %d host %s noise=%v", c.Clock, c.Pid, c.Host, c.Noise)
		case 8:
			// combination
			c.Iter = fmt.Sprintf("shuffle:%d", r.IntN(100000))
			c.Sub = subs[r.IntN(len(subs))]
			if layouts {
				c.Layout = []string{world.LayoutMod, world.LayoutGopath, world.LayoutGopathVendor, world.LayoutModVendor}[r.IntN(4)]
			}
			c.Clock = 3000000000
			c.Noise = true
			c.Label = fmt.Sprintf("combo %s %s %s", c.Iter, c.Sub, c.Layout)
		}
		add(c)
	}
	return out
}

// GenCase draws a generated-program case.
func GenCase(r *rand.Rand, thorough bool) *Case {
	k := progen.RandomKnobs(r, thorough && r.IntN(3) == 0)
	// determinism wants many imports, values, injectors, anonymous imports
	k.NPkgs = 2 + r.IntN(5)
	k.ValuePct = []int{10, 30, 60}[r.IntN(3)]
	k.InjPerPkg = 2 + r.IntN(4)
	if r.IntN(3) > 0 {
		k.ExtPkgs = 1 + r.IntN(2)
	}
	if r.IntN(2) == 0 {
		// same package name under several paths: import names differ from file to file
		k.Adversary = true
		k.ValuePct = 60
		k.NSets = 3 + r.IntN(4)
	}
	m := progen.Generate(r, k)
	if r.IntN(4) == 0 {
		m.AddSharedValue()
	}
	c := &Case{Kind: "gen", Module: m, AutoSites: r.IntN(3) == 0}
	if r.IntN(3) == 0 {
		c.Header = "// Copyright 2026 Example Authors. All rights reserved.\n\n"
	}
	if r.IntN(5) == 0 {
		// a few tiny packages: one provider, one injector each
		k.NTypes = k.NPkgs
		k.InjPerPkg = 1
		k.FanIn = 0
		k.NSets = 0
		c.Module = progen.Generate(r, k)
		m = c.Module
		if r.IntN(2) == 0 {
			m.AddSharedValue()
		}
		c.Header = "// Tiny.\n\n"
	}
	if r.IntN(6) == 0 {
		c.Tags = []string{"foo", "foo bar"}[r.IntN(2)]
	}
	if r.IntN(8) == 0 {
		// an injector file that imports "C" (needs a C compiler: checked once per batch, see CgoUsable)
		for _, pk := range m.Pkgs {
			if pk.Idx >= m.Ext && !pk.Facade && !pk.NoInj {
				pk.Cgo = CgoUsable()
				break
			}
		}
	}
	var pkgs []string
	for _, pk := range m.Pkgs {
		if pk.Idx >= m.Ext {
			pkgs = append(pkgs, pk.Path)
		}
	}
	n := 7
	if thorough {
		n = 14
	}
	c.Configs = append([]Config{baseline()}, GenConfigs(r, pkgs, n, true)...)
	// naming a package by the list of its files, in another order than the directory listing
	for _, pk := range m.Pkgs {
		if pk.Idx < m.Ext || pk.Facade {
			continue
		}
		files := m.PkgGoFiles(pk)
		if len(files) < 3 {
			continue // one injector file: no order to speak of
		}
		fc := baseline()
		fc.Cwd = pk.Path
		for _, i := range r.Perm(len(files)) {
			fc.Patterns = append(fc.Patterns, files[i])
		}
		// make sure it is not the sorted order
		if sortedStrings(fc.Patterns) {
			fc.Patterns[0], fc.Patterns[len(files)-1] = fc.Patterns[len(files)-1], fc.Patterns[0]
		}
		fc.Label = fmt.Sprintf("invocation files cwd=%q %v", fc.Cwd, fc.Patterns)
		c.Configs = append(c.Configs, fc)
		break
	}
	// the property names the dependency layouts explicitly: every generated program is generated at
	// least once from a vendor directory (GOPATH+vendor twice as often: the only layout in which the
	// loader reports vendored packages under their vendor/ path), and thorough runs add plain GOPATH
	lc := baseline()
	lc.Layout = []string{world.LayoutGopathVendor, world.LayoutGopathVendor, world.LayoutModVendor}[r.IntN(3)]
	lc.Label = "layout " + lc.Layout
	c.Configs = append(c.Configs, lc)
	if thorough {
		lc.Layout = world.LayoutGopath
		lc.Label = "layout " + lc.Layout
		c.Configs = append(c.Configs, lc)
	}
	return c
}

// CorpusCase builds the case of one testdata directory.
func CorpusCase(r *rand.Rand, name string, thorough bool) *Case {
	c := &Case{Kind: "corpus", Corpus: name, AutoSites: true}
	n := 2
	if thorough {
		n = 8
	}
	var cfgs []Config
	for _, cfg := range GenConfigs(r, nil, n*3, false) {
		if len(cfgs) < n {
			cfgs = append(cfgs, cfg)
		}
	}
	c.Configs = append([]Config{baseline()}, cfgs...)
	return c
}

func sortStrings(s []string) { sort.Strings(s) }

func sortedStrings(s []string) bool { return sort.StringsAreSorted(s) }

var (
	cgoOnce sync.Once
	cgoOK   bool
)

// CgoUsable reports whether cgo programs can be built here (a C compiler on PATH and CGO_ENABLED != 0).
func CgoUsable() bool {
	cgoOnce.Do(func() {
		if os.Getenv("CGO_ENABLED") == "0" {
			return
		}
		for _, cc := range []string{os.Getenv("CC"), "gcc", "cc", "clang"} {
			if cc == "" {
				continue
			}
			if _, err := exec.LookPath(cc); err == nil {
				cgoOK = true
				return
			}
		}
	})
	return cgoOK
}
