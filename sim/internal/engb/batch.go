package engb

import (
	"encoding/json"
	"fmt"
	"os"
	"path/filepath"
	"sort"
	"strings"
	"time"

	"verif/sim/internal/common"
)

func clone(c *Case) *Case {
	data, _ := json.Marshal(c)
	out := new(Case)
	json.Unmarshal(data, out)
	return out
}

// hasKey matches on the clause only: which dimension a difference is attributed
// to is derived from the configuration, which the minimiser is busy changing.
func hasKey(vs []common.Verdict, key string) *common.Verdict {
	clause := strings.SplitN(key, "/", 2)[0]
	for i := range vs {
		if vs[i].Property == "C16" && vs[i].Clause == clause {
			return &vs[i]
		}
	}
	return nil
}

func corpusNames(b *common.Build) []string {
	ents, err := os.ReadDir(filepath.Join(b.Tree, "internal", "wire", "testdata"))
	if err != nil {
		return nil
	}
	var out []string
	for _, e := range ents {
		if e.IsDir() {
			out = append(out, e.Name())
		}
	}
	sort.Strings(out)
	return out
}

// minimise reduces the configurations to the one that differs, then that one to a single dimension.
func minimise(b *common.Build, st *Stats, c *Case, key, scratch string) (*Case, *common.Verdict, []string) {
	n := 0
	try := func(cand *Case) (*common.Verdict, []string) {
		n++
		dir, _ := os.MkdirTemp(scratch, "min-")
		defer os.RemoveAll(dir)
		out := RunCase(b, st, cand, dir)
		if out.Infra != "" || out.Skipped != "" {
			return nil, nil
		}
		return hasKey(out.Verdicts, key), out.Log
	}
	best := c
	v, log := try(best)
	if v == nil {
		return nil, nil, nil
	}
	// which configuration?
	label := ""
	if i := strings.Index(v.Detail, "configuration \""); i >= 0 {
		label = strings.TrimSuffix(v.Detail[i+len("configuration \""):], "\"")
	}
	if label != "" {
		var keep *Config
		for i := range best.Configs[1:] {
			if best.Configs[i+1].Label == label {
				keep = &best.Configs[i+1]
			}
		}
		if keep == nil && strings.HasPrefix(label, "flip only ") {
			cfg := best.Configs[0]
			cfg.Sites = map[string]string{strings.TrimPrefix(label, "flip only "): "desc"}
			cfg.Label = label
			keep = &cfg
		}
		if keep != nil {
			cand := clone(best)
			cand.AutoSites = false
			cand.Configs = []Config{best.Configs[0], *keep}
			if v2, l2 := try(cand); v2 != nil {
				best, v, log = cand, v2, l2
			}
		}
	}
	if len(best.Configs) == 2 {
		// reset dimensions one at a time
		base := baseline()
		resets := []func(c *Config){
			func(c *Config) { c.Layout = base.Layout },
			func(c *Config) { c.Sub, c.Symlink = "", false },
			func(c *Config) { c.Cwd, c.Patterns = "", nil },
			func(c *Config) { c.Clock, c.Pid, c.Host, c.Noise = base.Clock, base.Pid, base.Host, false },
			func(c *Config) { c.Iter, c.Sites = "asc", nil },
			func(c *Config) {
				if strings.HasPrefix(c.Iter, "shuffle") {
					c.Iter = "desc"
				}
			},
		}
		for _, reset := range resets {
			if n > 30 {
				break
			}
			cand := clone(best)
			before := cfgDigest(cand.Configs[1])
			reset(&cand.Configs[1])
			if cfgDigest(cand.Configs[1]) == before {
				continue
			}
			cand.Configs[1].Label = "minimised"
			if v2, l2 := try(cand); v2 != nil {
				best, v, log = cand, v2, l2
			}
		}
		// if iteration order is responsible, find a single responsible site
		if best.Configs[1].Iter == "desc" && len(best.Configs[1].Sites) == 0 {
			cand := clone(best)
			cand.Configs = cand.Configs[:1]
			cand.AutoSites = true
			if v2, l2 := try(cand); v2 != nil && strings.Contains(v2.Detail, "flip only ") {
				site := strings.TrimSuffix(v2.Detail[strings.Index(v2.Detail, "flip only ")+len("flip only "):], "\"")
				c3 := clone(best)
				c3.Configs[1].Iter = "asc"
				c3.Configs[1].Sites = map[string]string{site: "desc"}
				c3.Configs[1].Label = "flip only " + site
				if v3, l3 := try(c3); v3 != nil {
					best, v, log = c3, v3, l3
				} else {
					_ = l2
				}
			}
		}
	}
	return best, v, log
}

// confirmFlaky repeats the baseline configuration; differing outputs between identical runs are a C16 violation.
func confirmFlaky(b *common.Build, st *Stats, c *Case, scratch string) (*Case, *common.Verdict, []string) {
	cand := clone(c)
	cand.AutoSites = false
	cand.Configs = []Config{c.Configs[0]}
	for i := 0; i < 9; i++ {
		r := c.Configs[0]
		r.Label = fmt.Sprintf("repeat %d", i+1)
		cand.Configs = append(cand.Configs, r)
	}
	for attempt := 0; attempt < 3; attempt++ {
		dir, _ := os.MkdirTemp(scratch, "flaky-")
		out := RunCase(b, st, cand, dir)
		os.RemoveAll(dir)
		if out.Infra != "" || out.Skipped != "" {
			return nil, nil, nil
		}
		for i := range out.Verdicts {
			v := out.Verdicts[i]
			if v.Clause == "D1" {
				v.Clause, v.Disc = "D3", "output-varies-between-identical-runs"
				return cand, &v, out.Log
			}
		}
	}
	return nil, nil, nil
}

// Check runs a batch for C16.
func Check(tier string) int {
	prop := "C16"
	start := time.Now()
	seed := common.Seed()
	fmt.Printf("VERIF_SEED=%d property=%s tier=%s engine=B (generation-determinism simulator)\n", seed, prop, tier)
	b := common.Prepare(prop, false)
	st := &Stats{}
	thorough := tier == "thorough"
	ngen, budget := 64, 8*time.Minute
	if thorough {
		ngen, budget = 900, 40*time.Minute
	}
	names := corpusNames(b)
	if v := common.CasesOverride(0); v > 0 {
		ngen = v
		if len(names) > v {
			names = names[:v]
		}
	}
	total := len(names) + ngen
	deadline := common.NewDeadline(budget)
	scratch := filepath.Join(b.Root, "cases")
	os.MkdirAll(scratch, 0777)
	type result struct {
		c   *Case
		out *Outcome
	}
	results := common.ParallelMap(total, common.Workers(), func(i int) result {
		if deadline.Passed() {
			return result{}
		}
		r := common.Rng(seed, i)
		var c *Case
		if i < ngen {
			c = GenCase(r, thorough)
		} else {
			c = CorpusCase(r, names[i-ngen], thorough)
		}
		dir := filepath.Join(scratch, fmt.Sprintf("c%d", i))
		os.MkdirAll(dir, 0777)
		defer os.RemoveAll(dir)
		return result{c, RunCase(b, st, c, dir)}
	})
	var found []common.Found
	ran, usable, runs := 0, 0, 0
	skipped := map[string]int{}
	var samples []interface{}
	for i, r := range results {
		if r.c == nil {
			continue
		}
		ran++
		if r.out.Infra != "" {
			writeEvidence(tier, seed, start, st, b, ran, usable, runs, skipped, samples, 0, "infrastructure trouble: "+r.out.Infra)
			common.Infra("case %d: %s", i, r.out.Infra)
		}
		if r.out.Skipped != "" {
			k := strings.SplitN(r.out.Skipped, ":", 2)[0]
			skipped[k]++
			if skipped[k] <= 3 {
				fmt.Printf("skipped workload: case %d: %s\n", i, r.out.Skipped)
			}
			continue
		}
		usable++
		runs += r.out.Runs
		if len(samples) < 4 && (len(samples) < 2 || r.c.Kind == "corpus") {
			var labels []string
			for _, cf := range r.c.Configs {
				labels = append(labels, cf.Label)
			}
			s := map[string]interface{}{"case": i, "kind": r.c.Kind, "configurations": labels, "auto_single_site_flips": r.c.AutoSites, "log": r.out.Log}
			if r.c.Kind == "corpus" {
				s["corpus"] = r.c.Corpus
			} else {
				s["packages"] = len(r.c.Module.Pkgs)
				s["types"] = len(r.c.Module.Types)
				s["injectors"] = len(r.c.Module.Injectors)
				s["packages_in_dependency_module"] = r.c.Module.Ext
			}
			samples = append(samples, s)
		}
		for _, v := range r.out.Verdicts {
			found = append(found, common.Found{Verdict: v, Index: i, Case: r.c, Trace: r.out.Log})
		}
	}
	if os.Getenv("VERIF_LOG") != "" {
		var lines []string
		for i, r := range results {
			if r.c == nil {
				continue
			}
			lines = append(lines, fmt.Sprintf("== case %d kind=%s skipped=%q", i, r.c.Kind, r.out.Skipped))
			lines = append(lines, r.out.Log...)
		}
		common.WriteRunLog(lines)
	}
	if usable == 0 {
		writeEvidence(tier, seed, start, st, b, ran, usable, runs, skipped, samples, 0, "no usable workload")
		common.Infra("no usable workload: %v", skipped)
	}
	if skipped["rejected_by_wire"]*2 > ngen {
		writeEvidence(tier, seed, start, st, b, ran, usable, runs, skipped, samples, 0, "most generated workloads rejected")
		common.Infra("more than half of the generated workloads are rejected by wire: no verdict")
	}
	findings := common.LoadFindings()
	sort.SliceStable(found, func(i, j int) bool { return found[i].Index < found[j].Index })
	seen := map[string]bool{}
	var reps []common.Found
	for _, f := range found {
		k := f.Verdict.Key()
		if seen[k] {
			continue
		}
		seen[k] = true
		if common.KnownOpen(findings, prop, k) == nil && len(reps) < 6 {
			mc, mv, mlog := minimise(b, st, f.Case.(*Case), k, scratch)
			if mc == nil {
				// For C16 a difference that does not reproduce is itself the subject of the property:
				// run the baseline configuration repeatedly; if identical runs disagree, that is the violation.
				if fc, fv, flog := confirmFlaky(b, st, f.Case.(*Case), scratch); fc != nil {
					f.Case, f.Verdict, f.Trace = fc, *fv, flog
					f.Note = "outputs vary between identical runs (nondeterminism the seams do not own, e.g. file parse order); the replay repeats the baseline configuration and reproduces with high probability only"
					reps = append(reps, f)
					continue
				}
			}
			if mc == nil {
				writeEvidence(tier, seed, start, st, b, ran, usable, runs, skipped, samples, 0, "a violation did not reproduce")
				common.Infra("violation %s of case %d did not reproduce when re-run: harness nondeterminism", k, f.Index)
			}
			f.Case, f.Verdict, f.Trace = mc, *mv, mlog
			f.Note = "minimised: baseline + the one configuration that differs; replay with ./check replay <this file>"
		}
		reps = append(reps, f)
	}
	unlisted, _ := common.Report(prop, "B", seed, reps)
	writeEvidence(tier, seed, start, st, b, ran, usable, runs, skipped, samples, unlisted, "")
	fmt.Printf("%s: %d programs (%d usable, skipped %v), %d wire gen runs, %d distinct realised schedules, %d distinct (program,configuration) pairs, %d unlisted violation(s), %.0fs\n",
		prop, ran, usable, skipped, runs, st.Schedules.Len(), st.Pairs.Len(), unlisted, time.Since(start).Seconds())
	if unlisted > 0 {
		return common.ExitViolation
	}
	return common.ExitOK
}

func writeEvidence(tier string, seed uint64, start time.Time, st *Stats, b *common.Build, ran, usable, runs int, skipped map[string]int, samples []interface{}, violations int, note string) {
	wall := time.Since(start).Seconds()
	if samples == nil {
		samples = []interface{}{"(none: the run stopped before any case completed)"}
	}
	cov := map[string]interface{}{
		"evaluations":                           runs,
		"distinct_nontrivial":                   st.Pairs.Len(),
		"rule":                                  "programs = wire's own testdata corpus + seeded multi-package modules (many imports, values, anonymous imports, injectors; optionally packages in a dependency module that vendor layouts vendor); each program is generated once under a baseline (module mode, canonical location, cwd = module root, ./..., ascending iteration) and then under seeded configurations varying one or several of: iteration schedule of every map/typeutil.Map walk (desc, shuffles, single-site flips), checkout location (deep, spaces, non-ASCII, `vendor` segment, symlink), cwd + package pattern (., import path, absolute dir, one package alone, shuffled explicit lists), dependency layout (GOPATH, GOPATH+vendor, module+vendor), repeat, clock/pid/host, environment noise; evaluations = wire gen processes; distinct_nontrivial = distinct (program digest, non-baseline configuration) pairs executed and compared byte-for-byte with the baseline",
		"samples":                               samples,
		"programs":                              ran,
		"programs_usable":                       usable,
		"programs_skipped":                      skipped,
		"runs_per_hour":                         float64(usable) / wall * 3600,
		"wire_processes_per_hour":               float64(runs) / wall * 3600,
		"simulated_time":                        "none: wire has no timers; the simulated clock/pid/host are values the seams would return if wire read them",
		"distinct_realised_iteration_schedules": st.Schedules.Len(),
		"max_keys_seen_per_iteration_site":      st.SiteMax.Map(),
		"configurations_by_kind":                st.Counts.Map(),
		"fault_kinds_fired":                     "none: C16 has no faults, only schedules and configurations",
		"components":                            common.Components("B"),
		"seam_sites":                            len(b.Sites),
		"limits":                                "orders derived from heap addresses without going through a map walk (e.g. sorting by %p) are outside the seam; only the repeat configurations could catch them, probabilistically",
	}
	if note != "" {
		cov["note"] = note
	}
	common.WriteEvidence(&common.Evidence{
		PropertyID: "C16", Tier: tier, Seed: int64(seed), Level: "exploration", Coverage: cov,
		Assumptions: []string{
			"go list / go/packages results (package order, syntax trees, type information) are deterministic functions of tree and environment",
			"the simulator owns iteration order only at sites the type-driven instrumenter can see (range over map, typeutil.Map.Iterate/Keys, reflect MapKeys)",
			"snapshot iteration (all keys present at loop start) is one of the orders Go allows",
		},
		WallS: wall, Violations: violations,
	})
}

// Replay re-runs a replay file's case.
func Replay(r *common.Replay) int {
	var c Case
	if err := json.Unmarshal(r.Case, &c); err != nil {
		common.Infra("replay: %v", err)
	}
	b := common.Prepare("replay", false)
	dir := filepath.Join(b.Root, "replay")
	os.MkdirAll(dir, 0777)
	out := RunCase(b, &Stats{}, &c, dir)
	if out.Infra != "" {
		common.Infra("%s", out.Infra)
	}
	if out.Skipped != "" {
		fmt.Println("workload unusable on this tree:", out.Skipped)
		return common.ExitInfra
	}
	for _, l := range out.Log {
		fmt.Println(l)
	}
	if r.Verdict.Clause == "D3" {
		for i := range out.Verdicts {
			if out.Verdicts[i].Clause == "D1" {
				out.Verdicts[i].Clause, out.Verdicts[i].Disc = "D3", "output-varies-between-identical-runs"
			}
		}
	}
	if v := hasKey(out.Verdicts, r.Verdict.Key()); v != nil {
		fmt.Printf("reproduced: %s %s expected %s observed %s (%s)\n", v.Property, v.Key(), v.Expected, v.Observed, v.Detail)
		fmt.Printf("VIOLATION property=%s replay=%s\n", r.Property, os.Getenv("VERIF_REPLAY_PATH"))
		return common.ExitViolation
	}
	fmt.Printf("not reproduced: clause %s of %s holds on this tree\n", r.Verdict.Key(), r.Property)
	return common.ExitOK
}
