// Package world materialises simulated source trees (real directories: wire's
// loader shells out to `go list`) and runs wire processes in them under a plan.
package world

import (
	"bytes"
	"context"
	"crypto/sha256"
	"encoding/hex"
	"encoding/json"
	"fmt"
	"os"
	"os/exec"
	"path/filepath"
	"sort"
	"strconv"
	"strings"
	"syscall"
	"time"
)

// Layouts.
const (
	LayoutMod          = "mod"
	LayoutGopath       = "gopath"
	LayoutGopathVendor = "gopath+vendor"
	LayoutModVendor    = "mod+vendor"
)

// ModulePath is the import path prefix of every workload.
const ModulePath = "example.com"

// ExtPath is the module path of the workload's dependency module.
const ExtPath = "dep.example"

// WirePath is the import path of the marker package.
const WirePath = "github.com/google/wire"

// World is one materialised tree.
type World struct {
	Root    string // scratch directory owning everything
	Layout  string
	AppDir  string // directory of the example.com module / GOPATH package root
	ExtDir  string // where the dependency module dep.example lives ("" if none)
	WireDir string // where the marker package lives
	Gopath  string
	Home    string
}

// File is one workload file, path relative to the module root (slash-separated).
type File struct {
	Path string
	Data []byte
}

// New creates a world under root with the given layout. sub is an extra path
// (possibly several segments) between root and the tree so that checkout
// location can be varied.
func New(root, layout, sub string, marker []byte, files []File, ext ...File) (*World, error) {
	w := &World{Root: root, Layout: layout}
	base := filepath.Join(root, filepath.FromSlash(sub))
	w.Home = filepath.Join(root, "home")
	os.MkdirAll(w.Home, 0777)
	os.MkdirAll(filepath.Join(root, "tmp"), 0777)
	switch layout {
	case LayoutMod, LayoutModVendor:
		w.AppDir = filepath.Join(base, "app")
		w.Gopath = filepath.Join(root, "gopath")
		os.MkdirAll(w.Gopath, 0777)
		if layout == LayoutMod {
			w.WireDir = filepath.Join(base, "dep", "wire")
		} else {
			w.WireDir = filepath.Join(w.AppDir, "vendor", filepath.FromSlash(WirePath))
		}
	case LayoutGopath:
		w.Gopath = filepath.Join(base, "gp")
		w.AppDir = filepath.Join(w.Gopath, "src", ModulePath)
		w.WireDir = filepath.Join(w.Gopath, "src", filepath.FromSlash(WirePath))
	case LayoutGopathVendor:
		w.Gopath = filepath.Join(base, "gp")
		w.AppDir = filepath.Join(w.Gopath, "src", ModulePath)
		w.WireDir = filepath.Join(w.AppDir, "vendor", filepath.FromSlash(WirePath))
	default:
		return nil, fmt.Errorf("unknown layout %q", layout)
	}
	if err := os.MkdirAll(w.AppDir, 0777); err != nil {
		return nil, err
	}
	if err := os.MkdirAll(w.WireDir, 0777); err != nil {
		return nil, err
	}
	if err := os.WriteFile(filepath.Join(w.WireDir, "wire.go"), marker, 0666); err != nil {
		return nil, err
	}
	// the dependency module dep.example, if the workload has one
	extPkgs := map[string]bool{}
	if len(ext) > 0 {
		switch layout {
		case LayoutMod:
			w.ExtDir = filepath.Join(base, "dep", "ext")
		case LayoutGopath:
			w.ExtDir = filepath.Join(w.Gopath, "src", ExtPath)
		default:
			w.ExtDir = filepath.Join(w.AppDir, "vendor", ExtPath)
		}
		for _, f := range ext {
			p := filepath.Join(w.ExtDir, filepath.FromSlash(f.Path))
			if err := os.MkdirAll(filepath.Dir(p), 0777); err != nil {
				return nil, err
			}
			if err := os.WriteFile(p, f.Data, 0666); err != nil {
				return nil, err
			}
			extPkgs[ExtPath+"/"+filepath.ToSlash(filepath.Dir(f.Path))] = true
		}
	}
	switch layout {
	case LayoutMod:
		gm := fmt.Sprintf("module %s\n\ngo 1.19\n\nrequire %s v0.1.0\n\nreplace %s => %s\n", ModulePath, WirePath, WirePath, modPathQuote(w.WireDir))
		if len(ext) > 0 {
			gm += fmt.Sprintf("\nrequire %s v0.1.0\n\nreplace %s => %s\n", ExtPath, ExtPath, modPathQuote(w.ExtDir))
			egm := fmt.Sprintf("module %s\n\ngo 1.19\n\nrequire %s v0.1.0\n", ExtPath, WirePath)
			if err := os.WriteFile(filepath.Join(w.ExtDir, "go.mod"), []byte(egm), 0666); err != nil {
				return nil, err
			}
		}
		if err := os.WriteFile(filepath.Join(w.AppDir, "go.mod"), []byte(gm), 0666); err != nil {
			return nil, err
		}
		if err := os.WriteFile(filepath.Join(w.WireDir, "go.mod"), []byte("module "+WirePath+"\n\ngo 1.19\n"), 0666); err != nil {
			return nil, err
		}
	case LayoutModVendor:
		gm := fmt.Sprintf("module %s\n\ngo 1.19\n\nrequire %s v0.1.0\n", ModulePath, WirePath)
		mt := fmt.Sprintf("# %s v0.1.0\n## explicit; go 1.19\n%s\n", WirePath, WirePath)
		if len(ext) > 0 {
			gm += fmt.Sprintf("\nrequire %s v0.1.0\n", ExtPath)
			var ps []string
			for p := range extPkgs {
				ps = append(ps, p)
			}
			sort.Strings(ps)
			mt = fmt.Sprintf("# %s v0.1.0\n## explicit; go 1.19\n%s\n", ExtPath, strings.Join(ps, "\n")) + mt
		}
		if err := os.WriteFile(filepath.Join(w.AppDir, "go.mod"), []byte(gm), 0666); err != nil {
			return nil, err
		}
		if err := os.WriteFile(filepath.Join(w.AppDir, "vendor", "modules.txt"), []byte(mt), 0666); err != nil {
			return nil, err
		}
	}
	for _, f := range files {
		if err := w.WriteFile(f.Path, f.Data); err != nil {
			return nil, err
		}
	}
	return w, nil
}

// modPathQuote quotes a file path for go.mod when it needs quoting.
func modPathQuote(p string) string {
	if strings.ContainsAny(p, " \t\"'`") {
		return strconv.Quote(p)
	}
	return p
}

// WriteFile writes a file relative to the app dir.
func (w *World) WriteFile(rel string, data []byte) error {
	p := filepath.Join(w.AppDir, filepath.FromSlash(rel))
	if err := os.MkdirAll(filepath.Dir(p), 0777); err != nil {
		return err
	}
	return os.WriteFile(p, data, 0666)
}

// Env is the explicit environment of every process in this world.
func (w *World) Env(extra ...string) []string {
	env := []string{
		"PATH=" + os.Getenv("PATH"),
		"HOME=" + w.Home,
		"TMPDIR=" + filepath.Join(w.Root, "tmp"), // a private temp dir: anything wire might cache there stays inside this world
		"GOPATH=" + w.Gopath,
		"GOCACHE=" + goCache(),
		"GOPROXY=off",
		"GOSUMDB=off",
		"GOTOOLCHAIN=local",
		"GOWORK=off",
		"GONOSUMDB=*",
		"LANG=C",
		// cmd/go's module index is consulted only for directories whose files are
		// older than 2 s, and the indexed path reports header parse errors of
		// build-constraint-excluded files that the go/build path ignores: a real
		// clock dependency inside the (trusted) loader. Pin the non-indexed path.
		"GODEBUG=goindex=0",
	}
	if d := os.Getenv("GOCOVERDIR"); d != "" && os.Getenv("VERIF_COVER") != "" {
		env = append(env, "GOCOVERDIR="+d)
	}
	switch w.Layout {
	case LayoutMod:
		env = append(env, "GO111MODULE=on", "GOFLAGS=")
	case LayoutModVendor:
		env = append(env, "GO111MODULE=on", "GOFLAGS=-mod=vendor")
	default:
		env = append(env, "GO111MODULE=off", "GOFLAGS=")
	}
	return append(env, extra...)
}

var goCacheDir string

func goCache() string {
	if goCacheDir != "" {
		return goCacheDir
	}
	if d := os.Getenv("GOCACHE"); d != "" {
		goCacheDir = d
		return d
	}
	out, err := exec.Command("go", "env", "GOCACHE").Output()
	if err == nil {
		goCacheDir = strings.TrimSpace(string(out))
	}
	if goCacheDir == "" {
		goCacheDir = filepath.Join(os.Getenv("HOME"), ".cache", "go-build")
	}
	return goCacheDir
}

// ---------------------------------------------------------------- plans

// Fault mirrors verifsim.Fault.
type Fault struct {
	Op   string `json:"op"`
	Path string `json:"path"`
	Nth  int    `json:"nth"`
	Kind string `json:"kind"`
	N    int    `json:"n"`
}

// Plan mirrors verifsim.Plan.
type Plan struct {
	Seed   uint64            `json:"seed"`
	Iter   string            `json:"iter"`
	Sites  map[string]string `json:"sites,omitempty"`
	Faults []Fault           `json:"faults,omitempty"`
	Clock  int64             `json:"clock"`
	Pid    int               `json:"pid"`
	Host   string            `json:"host"`
	User   string            `json:"user,omitempty"`
}

// Result of one process.
type Result struct {
	Exit     int      // exit status; -1 = killed by the watchdog
	Stdout   string
	Stderr   string
	Trace    []string // seam trace lines
	TimedOut bool
	Dur      time.Duration
}

// Crashed reports whether the simulated crash fired.
func (r *Result) Crashed() bool { return r.Exit == 137 }

// FaultsFired returns the kinds of the faults that actually fired.
func (r *Result) FaultsFired() []string {
	var out []string
	for _, l := range r.Trace {
		if strings.HasPrefix(l, "fs ") {
			if i := strings.Index(l, " fault="); i >= 0 {
				k := l[i+len(" fault="):]
				if j := strings.IndexByte(k, ' '); j >= 0 {
					k = k[:j] // "none armed=<kind>": a byte-level fault armed at open that has not fired (yet)
				}
				if k != "none" {
					op := ""
					if j := strings.Index(l, "op="); j >= 0 {
						op = strings.Fields(l[j+3:])[0]
					}
					out = append(out, op+":"+k)
				}
			}
		}
	}
	return out
}

// Exec runs bin with args in dir under plan (nil = seams inert).
func (w *World) Exec(bin, dir string, plan *Plan, scratch string, extraEnv []string, args ...string) *Result {
	ctx, cancel := context.WithTimeout(context.Background(), 120*time.Second)
	defer cancel()
	cmd := exec.CommandContext(ctx, bin, args...)
	cmd.Dir = dir
	// a shell that has cd'ed into dir exports PWD, and os.Getwd prefers a valid $PWD over the resolved path: without
	// it a checkout reached through a symlink would never be seen under its symlinked spelling
	env := w.Env(append([]string{"PWD=" + dir}, extraEnv...)...)
	var tracePath string
	if plan != nil {
		f, err := os.CreateTemp(scratch, "plan-*.json")
		if err != nil {
			return &Result{Exit: -1, Stderr: err.Error(), TimedOut: true}
		}
		data, _ := json.Marshal(plan)
		f.Write(data)
		f.Close()
		defer os.Remove(f.Name())
		tracePath = f.Name() + ".trace"
		defer os.Remove(tracePath)
		env = append(env, "VERIF_SIM_PLAN="+f.Name(), "VERIF_SIM_TRACE="+tracePath)
	}
	cmd.Env = env
	var so, se bytes.Buffer
	cmd.Stdout = &so
	cmd.Stderr = &se
	cmd.SysProcAttr = &syscall.SysProcAttr{Setpgid: true}
	cmd.Cancel = func() error {
		return syscall.Kill(-cmd.Process.Pid, syscall.SIGKILL)
	}
	start := time.Now()
	err := cmd.Run()
	res := &Result{Stdout: so.String(), Stderr: se.String(), Dur: time.Since(start)}
	if ctx.Err() != nil {
		res.Exit = -1
		res.TimedOut = true
	} else if err != nil {
		if ee, ok := err.(*exec.ExitError); ok {
			res.Exit = ee.ExitCode()
		} else {
			res.Exit = -1
			res.Stderr += "\nexec: " + err.Error()
			res.TimedOut = true
		}
	}
	if tracePath != "" {
		if data, err := os.ReadFile(tracePath); err == nil {
			for _, l := range strings.Split(string(data), "\n") {
				if l != "" {
					res.Trace = append(res.Trace, l)
				}
			}
		}
	}
	return res
}

// ---------------------------------------------------------------- snapshots

// Entry is one file-system object of a snapshot.
type Entry struct {
	Kind string // f, d, l
	Sum  string
	Mode os.FileMode
}

// Snapshot maps paths (relative to dir) to entries.
type Snapshot map[string]Entry

// Snap walks dir.
func Snap(dir string) Snapshot {
	s := Snapshot{}
	filepath.Walk(dir, func(p string, info os.FileInfo, err error) error {
		if err != nil {
			return nil
		}
		rel, _ := filepath.Rel(dir, p)
		rel = filepath.ToSlash(rel)
		switch {
		case info.Mode()&os.ModeSymlink != 0:
			t, _ := os.Readlink(p)
			s[rel] = Entry{Kind: "l", Sum: t}
		case info.IsDir():
			s[rel] = Entry{Kind: "d", Mode: info.Mode().Perm()}
		default:
			data, err := os.ReadFile(p)
			sum := "unreadable"
			if err == nil {
				h := sha256.Sum256(data)
				sum = hex.EncodeToString(h[:8])
			}
			s[rel] = Entry{Kind: "f", Sum: sum, Mode: info.Mode().Perm()}
		}
		return nil
	})
	return s
}

// Delta lists what changed between two snapshots: "+path", "-path", "~path".
func Delta(a, b Snapshot) []string {
	var out []string
	for p, e := range b {
		o, ok := a[p]
		if !ok {
			out = append(out, "+"+p)
		} else if o != e {
			out = append(out, "~"+p)
		}
	}
	for p := range a {
		if _, ok := b[p]; !ok {
			out = append(out, "-"+p)
		}
	}
	sort.Strings(out)
	return out
}

// Scrub replaces the world's absolute paths in s by stable tokens.
func (w *World) Scrub(s string) string {
	s = strings.ReplaceAll(s, w.AppDir, "$APP")
	s = strings.ReplaceAll(s, w.WireDir, "$WIRE")
	if w.ExtDir != "" {
		s = strings.ReplaceAll(s, w.ExtDir, "$EXT")
	}
	s = strings.ReplaceAll(s, w.Root, "$ROOT")
	return s
}
