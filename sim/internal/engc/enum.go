package engc

import (
	"fmt"
	"math/rand/v2"
	"path/filepath"
	"strings"

	"verif/sim/internal/world"
)

// Fault-point enumeration (C17, C18).
//
// The seeded histories place about one fault in four commands at a drawn
// position. This phase is the systematic counterpart: for a sampled invocation
// (a short prefix that leaves fresh, stale and damaged outputs behind, then ONE
// gen / default / diff command) the command is first executed fault-free, its
// seam trace lists every I/O call it makes, and then the history is re-executed
// once per (I/O call, fault kind) — every error, short write and crash point of
// that invocation — each followed by one fault-free gen (bounded liveness: once
// faults stop, one gen suffices). Complete in the fault dimension per sampled
// invocation; sampled over invocations.

// EnumBase is a history whose step At is the command under enumeration.
type EnumBase struct {
	Case *Case
	At   int
}

// GenEnumBase draws a base history.
func GenEnumBase(r *rand.Rand) *EnumBase {
	c := &Case{Layout: world.LayoutMod}
	if r.IntN(8) == 0 {
		c.Layout = pick(r, []string{world.LayoutGopath, world.LayoutModVendor})
	}
	c.Pkgs = append(c.Pkgs, PkgInit{Name: "lib", Variant: "lib_ok", N: 1 + r.IntN(9)})
	np := 3 + r.IntN(2)
	okv := []string{"ok", "ok_rich", "ok_multi", "ok_badset"}
	for i := 0; i < np; i++ {
		v := pick(r, okv)
		switch {
		case i == 1 && r.IntN(2) == 0:
			v, _ = randVariant(r, 0) // a failing package in the middle of the invocation
			if v == "typeerr" {
				v = "bad_missing"
			}
		case i == 2 && r.IntN(3) == 0:
			v = "noinj"
		}
		c.Pkgs = append(c.Pkgs, PkgInit{Name: pkgNames[i], Variant: v, N: 1 + r.IntN(9)})
	}
	nonlib := pkgNames[:np]
	// prefix: leave something behind
	if r.IntN(4) != 0 {
		c.Steps = append(c.Steps, Step{Op: "cmd", Cmd: "gen", Patterns: []string{"./..."}, Iter: "asc"})
		// the sources move on: the outputs on disk are now stale
		for _, p := range c.Pkgs[1:] {
			if Info(p.Variant).Class == ClassOK && r.IntN(2) == 0 {
				c.Steps = append(c.Steps, Step{Op: "setvariant", Pkg: p.Name, Variant: pick(r, okv), N: 1 + r.IntN(9)})
			}
		}
	}
	if r.IntN(2) == 0 {
		mode := pick(r, []string{"stale", "crlf", "tail", "tweaked", "noted", "noncompiling", "garbage", "constraint_only", "otherpkg", "torn", "longer"})
		c.Steps = append(c.Steps, Step{Op: "corrupt", Pkg: pick(r, nonlib), Mode: mode, Cut: r.IntN(1001)})
	}
	// the command under enumeration
	st := Step{Op: "cmd", Patterns: []string{"./..."}}
	st.Cmd = weighted(r, []string{"gen", "default", "diff"}, []int{65, 10, 25})
	switch r.IntN(5) {
	case 0:
		st.Patterns = []string{"example.com/..."}
	case 1:
		perm := r.Perm(np)
		st.Patterns = nil
		for _, i := range perm[:2+r.IntN(np-1)] {
			st.Patterns = append(st.Patterns, "./"+nonlib[i])
		}
	}
	if st.Cmd != "default" && r.IntN(2) == 0 {
		st.Header = "good"
	}
	if st.Cmd == "gen" && r.IntN(6) == 0 {
		st.Prefix = "x_"
	}
	st.Iter = pick(r, []string{"asc", "desc", fmt.Sprintf("shuffle:%d", r.IntN(1000))})
	at := len(c.Steps)
	c.Steps = append(c.Steps, st)
	// once faults stop, one gen suffices
	if r.IntN(2) == 0 {
		for _, p := range c.Pkgs[1:] {
			if k := Info(p.Variant).Class; k == ClassBad {
				c.Steps = append(c.Steps, Step{Op: "setvariant", Pkg: p.Name, Variant: pick(r, okv), N: 1 + r.IntN(9)})
			}
		}
	}
	c.Steps = append(c.Steps, Step{Op: "cmd", Cmd: "gen", Patterns: []string{"./..."}, Iter: "desc"})
	return &EnumBase{Case: c, At: at}
}

// ioCall is one I/O seam call of the fault-free execution.
type ioCall struct {
	op, path string
}

func parseIOCalls(trace []string) []ioCall {
	var out []ioCall
	for _, l := range trace {
		if !strings.HasPrefix(l, "fs ") {
			continue
		}
		var c ioCall
		if strings.Contains(l, " occ=0 ") {
			continue // the firing of a byte-level fault armed at open, not a call of its own
		}
		for _, f := range strings.Fields(l) {
			switch {
			case strings.HasPrefix(f, "op="):
				c.op = f[3:]
			case strings.HasPrefix(f, "path="):
				c.path = f[5:]
			}
		}
		// paths may contain spaces only in engine B's locations; engine C's worlds do not
		out = append(out, c)
	}
	return out
}

// Derive lists one case per (I/O call of the command, fault kind). appDir is the
// module root of the world the trace was recorded in.
func (b *EnumBase) Derive(trace []string, appDir string) []*Case {
	var out []*Case
	perDir := map[string]int{}
	add := func(f world.Fault) {
		c := &Case{Layout: b.Case.Layout, Pkgs: b.Case.Pkgs}
		c.Steps = append([]Step{}, b.Case.Steps...)
		st := c.Steps[b.At]
		st.Faults = []world.Fault{f}
		c.Steps[b.At] = st
		out = append(out, c)
	}
	for _, call := range parseIOCalls(trace) {
		rel, err := filepath.Rel(appDir, call.path)
		inTree := err == nil && !strings.HasPrefix(rel, "..")
		switch call.op {
		case "getwd":
			key := "getwd"
			perDir[key]++
			for _, k := range []string{"enoent", "crash"} {
				add(world.Fault{Op: "getwd", Nth: perDir[key], Kind: k})
			}
		case "read":
			if strings.HasSuffix(call.path, "hdr.txt") {
				for _, k := range []string{"eio", "eacces", "enoent", "crash"} {
					add(world.Fault{Op: "read", Path: "hdr.txt", Nth: 1, Kind: k})
				}
				continue
			}
			if !inTree {
				continue
			}
			key := "read " + rel
			perDir[key]++
			for _, k := range []string{"eio", "eacces", "crash"} {
				add(world.Fault{Op: "read", Path: "/" + filepath.ToSlash(rel), Nth: perDir[key], Kind: k})
			}
		default:
			// write-like operations (write, create-temp, rename, remove ...): addressed by package
			// directory and occurrence there, whatever file a (changed) wire touches
			if !inTree {
				continue
			}
			dir := "/" + filepath.ToSlash(filepath.Dir(rel)) + "/"
			key := call.op + " " + dir
			perDir[key]++
			nth := perDir[key]
			for _, k := range []string{"err-eio", "err-enospc", "err-eacces", "err-erofs", "crash-before", "crash-trunc", "crash-after", "close-eio", "sync-enospc"} {
				add(world.Fault{Op: call.op, Path: dir, Nth: nth, Kind: k})
			}
			for _, n := range []int{0, 500, 999} {
				add(world.Fault{Op: call.op, Path: dir, Nth: nth, Kind: "short", N: n})
			}
			for _, n := range []int{1, 500, 999} {
				add(world.Fault{Op: call.op, Path: dir, Nth: nth, Kind: "crash-mid", N: n})
			}
		}
	}
	return out
}
