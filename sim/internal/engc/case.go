package engc

import (
	"fmt"
	"math/rand/v2"
	"strings"

	"verif/sim/internal/world"
)

// PkgInit is the initial variant of one package.
type PkgInit struct {
	Name    string `json:"name"`
	Variant string `json:"variant"`
	N       int    `json:"n"`
}

// Step is one step of a history.
type Step struct {
	Op string `json:"op"` // setvariant | delete | corrupt | cmd

	Pkg     string `json:"pkg,omitempty"`
	Variant string `json:"variant,omitempty"`
	N       int    `json:"n,omitempty"`

	Mode   string `json:"mode,omitempty"`   // corrupt mode
	Cut    int    `json:"cut,omitempty"`    // per-mille for torn outputs
	Prefix string `json:"prefix,omitempty"` // output file prefix (corrupt target / gen option)

	Cmd      string        `json:"cmd,omitempty"`      // gen | diff | check | show | default
	Cwd      string        `json:"cwd,omitempty"`      // "" = module root, else package name
	Patterns []string      `json:"patterns,omitempty"` // as typed on the command line
	Header   string        `json:"header,omitempty"`   // "" | good | missing | dir
	Tags     string        `json:"tags,omitempty"`
	Faults   []world.Fault `json:"faults,omitempty"`
	Iter     string        `json:"iter,omitempty"`
	HdrRel   bool          `json:"hdrrel,omitempty"` // -header_file given as a path relative to the working directory
	NoGo     bool          `json:"nogo,omitempty"` // the loader's `go list` subprocess is unavailable or fails (GoFault says how; "" = `go` not on PATH)
	GoFault  string        `json:"gofault,omitempty"` // list-exit1 | list-killed-midway | list-partial: a `go` shim in front of the real tool fails every `go list`
	EnvTags  bool          `json:"envtags,omitempty"` // the environment's GOFLAGS carries build tags (not an option of the invocation: nothing may change)
}

// Case is one simulated history.
type Case struct {
	Layout string    `json:"layout"`
	Pkgs   []PkgInit `json:"pkgs"`
	Steps  []Step    `json:"steps"`
	// Clutter: every package directory also holds files wire has no business with - a hand-written file behind
	// the !wireinject constraint whose name ends in _gen.go, a testdata directory, a nested module
	Clutter bool `json:"clutter,omitempty"`
}

func (s Step) String() string {
	switch s.Op {
	case "setvariant":
		return fmt.Sprintf("set %s=%s(%d)", s.Pkg, s.Variant, s.N)
	case "delete":
		return "delete " + s.Pkg
	case "touch":
		return "touch " + s.Pkg + " " + s.Mode
	case "corrupt":
		return fmt.Sprintf("corrupt %s %s%s cut=%d", s.Pkg, s.Prefix, s.Mode, s.Cut)
	}
	var sb strings.Builder
	fmt.Fprintf(&sb, "%s", s.Cmd)
	if s.Header != "" {
		fmt.Fprintf(&sb, " -header_file=%s", s.Header)
	}
	if s.Prefix != "" {
		fmt.Fprintf(&sb, " -output_file_prefix=%s", s.Prefix)
	}
	if s.Tags != "" {
		fmt.Fprintf(&sb, " -tags=%s", s.Tags)
	}
	fmt.Fprintf(&sb, " %s [cwd=%s iter=%s", strings.Join(s.Patterns, " "), s.Cwd, s.Iter)
	for _, f := range s.Faults {
		fmt.Fprintf(&sb, " fault=%s:%s:%s:%d", f.Op, f.Kind, f.Path, f.N)
	}
	if s.NoGo {
		sb.WriteString(" nogo")
		if s.GoFault != "" {
			sb.WriteString(":" + s.GoFault)
		}
	}
	if s.EnvTags {
		sb.WriteString(" GOFLAGS=-tags")
	}
	sb.WriteString("]")
	return sb.String()
}

var pkgNames = []string{"pa", "pb", "pc", "pd"}

func pick[T any](r *rand.Rand, xs []T) T { return xs[r.IntN(len(xs))] }

func weighted(r *rand.Rand, names []string, weights []int) string {
	tot := 0
	for _, w := range weights {
		tot += w
	}
	x := r.IntN(tot)
	for i, w := range weights {
		if x < w {
			return names[i]
		}
		x -= w
	}
	return names[len(names)-1]
}

func randVariant(r *rand.Rand, okBias int) (string, int) {
	n := 1 + r.IntN(9)
	if r.IntN(100) < okBias {
		return weighted(r, []string{"ok", "ok_rich", "ok_multi", "ok_badset", "ok_cycleset", "noinj", "testonly", "ok_unsafeptr", "ok_generic2", "ok_setalias", "ok_structconv"}, []int{26, 20, 16, 7, 6, 8, 5, 4, 4, 4, 4}), n
	}
	var bad []string
	for _, v := range Variants {
		if v.Class == ClassBad || v.Class == ClassTypeErr {
			bad = append(bad, v.Name)
		}
	}
	// typeerr wedges whole invocations: keep it rare
	v := pick(r, bad)
	if v == "typeerr" && r.IntN(3) != 0 {
		v = pick(r, bad)
	}
	if v == "bad_libset" {
		v = "bad_multi" // needs lib_badset: only placed by GenCase itself, see libBad below
	}
	return v, n
}

// GenCase draws one history. prop biases the command mix.
func GenCase(r *rand.Rand, prop string, thorough bool) *Case {
	c := &Case{Layout: world.LayoutMod}
	if r.IntN(6) == 0 {
		c.Layout = pick(r, []string{world.LayoutGopath, world.LayoutGopathVendor, world.LayoutModVendor})
	}
	c.Clutter = r.IntN(4) == 0
	libv := "lib_ok"
	switch r.IntN(6) {
	case 0:
		libv = "lib_badset"
	case 1, 2:
		libv = "lib_inj"
	}
	c.Pkgs = append(c.Pkgs, PkgInit{Name: "lib", Variant: libv, N: 1 + r.IntN(9)})
	np := 2 + r.IntN(3)
	for i := 0; i < np; i++ {
		v, n := randVariant(r, 75)
		c.Pkgs = append(c.Pkgs, PkgInit{Name: pkgNames[i], Variant: v, N: n})
	}
	if libv == "lib_badset" && r.IntN(3) > 0 {
		// two packages failing with the very same (library-positioned) error in one invocation
		for i := range c.Pkgs {
			if i == 1 || i == len(c.Pkgs)-1 {
				c.Pkgs[i].Variant = "bad_libset"
			}
		}
	}
	names := []string{}
	for _, p := range c.Pkgs {
		names = append(names, p.Name)
	}
	nonlib := names[1:]
	// current variant tracking for plausible choices
	cur := map[string]string{}
	for _, p := range c.Pkgs {
		cur[p.Name] = p.Variant
	}

	nsteps := 6 + r.IntN(9)
	if thorough {
		nsteps = 6 + r.IntN(14)
	}
	// swarm: per-case enabled fault kinds and options
	faultRate := pick(r, []int{0, 15, 25, 40})
	optRate := pick(r, []int{0, 20, 50})
	for i := 0; i < nsteps; i++ {
		switch weighted(r, []string{"cmd", "setvariant", "corrupt", "delete", "touch"}, []int{55, 19, 16, 5, 5}) {
		case "touch":
			c.Steps = append(c.Steps, Step{Op: "touch", Pkg: pick(r, nonlib), Mode: pick(r, []string{"sources-old", "sources-new", "output-old", "output-new", "all-old"})})
		case "setvariant":
			p := pick(r, names)
			if p == "lib" {
				v := "lib_ok"
				switch r.IntN(4) {
				case 0:
					v = "lib_badset"
				case 1:
					v = "lib_inj"
				}
				c.Steps = append(c.Steps, Step{Op: "setvariant", Pkg: p, Variant: v, N: 1 + r.IntN(9)})
				cur[p] = v
			} else {
				v, n := randVariant(r, 65)
				c.Steps = append(c.Steps, Step{Op: "setvariant", Pkg: p, Variant: v, N: n})
				cur[p] = v
			}
		case "delete":
			c.Steps = append(c.Steps, Step{Op: "delete", Pkg: pick(r, names)})
		case "corrupt":
			p := pick(r, nonlib)
			if r.IntN(8) == 0 {
				p = "lib"
			}
			mode := weighted(r,
				[]string{"stale", "crlf", "tail", "tweaked", "noted", "noncompiling", "garbage", "constraint_only", "otherpkg", "torn", "longer", "dir", "noconstraint", "nul", "empty"},
				[]int{10, 7, 10, 12, 8, 10, 10, 8, 8, 12, 10, 5, 2, 2, 1})
			st := Step{Op: "corrupt", Pkg: p, Mode: mode, Cut: r.IntN(1001)}
			if mode == "crlf" && st.Cut%2 == 0 {
				// the current output after `go fix` (buildtag): the // +build line is gone, //go:build stays (seeded change
				// C18-13). Derived from draws already made, so every other generated history stays what it was.
				st.Mode = "gofixed"
			}
			if r.IntN(6) == 0 {
				st.Prefix = "x_"
			}
			c.Steps = append(c.Steps, st)
		case "cmd":
			c.Steps = append(c.Steps, genCmd(r, prop, names, nonlib, cur, faultRate, optRate))
		}
	}
	// closing: once faults stop, one gen suffices (then gen again, then diff: run by the engine as follow-ups)
	if r.IntN(2) == 0 {
		for _, p := range nonlib {
			if k := Info(cur[p]).Class; k == ClassBad || k == ClassTypeErr {
				v, n := randVariant(r, 100)
				c.Steps = append(c.Steps, Step{Op: "setvariant", Pkg: p, Variant: v, N: n})
				cur[p] = v
			}
		}
		c.Steps = append(c.Steps, Step{Op: "cmd", Cmd: "gen", Patterns: []string{"./..."}, Iter: "asc"})
	} else {
		var pats []string
		for _, p := range nonlib {
			if Info(cur[p]).Class == ClassOK {
				pats = append(pats, "./"+p)
			}
		}
		if len(pats) > 0 {
			c.Steps = append(c.Steps, Step{Op: "cmd", Cmd: "gen", Patterns: pats, Iter: "desc"})
		}
	}
	return c
}

func genCmd(r *rand.Rand, prop string, names, nonlib []string, cur map[string]string, faultRate, optRate int) Step {
	st := Step{Op: "cmd"}
	switch prop {
	case "C19":
		st.Cmd = weighted(r, []string{"gen", "diff", "check", "show", "default"}, []int{25, 10, 35, 25, 5})
	case "C18":
		st.Cmd = weighted(r, []string{"gen", "diff", "check", "show", "default"}, []int{60, 15, 8, 7, 10})
	default:
		st.Cmd = weighted(r, []string{"gen", "diff", "check", "show", "default"}, []int{45, 25, 10, 10, 10})
	}
	// where and what
	if r.IntN(4) == 0 {
		st.Cwd = pick(r, nonlib)
		switch r.IntN(4) {
		case 0:
			st.Patterns = nil // defaults to "."
		case 1:
			st.Patterns = []string{"."}
		case 2:
			other := pick(r, nonlib)
			st.Patterns = []string{".", "../" + other}
			if other == st.Cwd {
				st.Patterns = []string{"."}
			}
		case 3:
			st.Patterns = []string{"example.com/" + pick(r, nonlib)}
		}
	} else {
		switch r.IntN(6) {
		case 0, 1:
			st.Patterns = []string{"./..."}
			if r.IntN(5) == 0 {
				// overlapping patterns: everything, and one package once more
				st.Patterns = append(st.Patterns, "./"+pick(r, nonlib))
			}
		case 2:
			one := pick(r, nonlib)
			st.Patterns = []string{"./" + one}
			if r.IntN(4) == 0 {
				// the same package named twice, by two spellings
				st.Patterns = append(st.Patterns, "example.com/"+one)
			}
		case 3:
			st.Patterns = []string{"example.com/" + pick(r, names)}
		case 4:
			perm := r.Perm(len(names))
			k := 1 + r.IntN(len(names))
			for _, i := range perm[:k] {
				st.Patterns = append(st.Patterns, "./"+names[i])
			}
			if r.IntN(6) == 0 {
				// a pattern that matches nothing: the whole invocation fails to load
				st.Patterns = append(st.Patterns, "./nosuch")
			}
		case 5:
			st.Patterns = []string{"example.com/..."}
		}
	}
	if st.Cmd == "default" && len(st.Patterns) == 0 && st.Cwd == "" {
		st.Patterns = []string{"./..."}
	}
	// options
	if st.Cmd != "default" && r.IntN(100) < optRate {
		if (st.Cmd == "gen" || st.Cmd == "diff") && r.IntN(2) == 0 {
			st.Header = "good"
			st.HdrRel = r.IntN(3) == 0
		}
		if st.Cmd == "gen" && r.IntN(2) == 0 {
			st.Prefix = pick(r, []string{"x_", "zz", "v1.gen.", "../lib/"})
		}
		if r.IntN(3) == 0 {
			// blanks around and between tags are legal (what -tags "$(EXTRA) foo" in a Makefile produces): seeded change C17-13
			st.Tags = pick(r, []string{"foo", "foo bar", " foo", "foo  bar"})
		}
	}
	st.EnvTags = r.IntN(10) == 0
	st.Iter = weighted(r, []string{"asc", "desc", "shuffle"}, []int{30, 30, 40})
	if st.Iter == "shuffle" {
		st.Iter = fmt.Sprintf("shuffle:%d", r.IntN(1000))
	}
	// faults
	if r.IntN(100) < faultRate {
		tgt := pick(r, nonlib)
		// prefer a package this command will actually write: targeted and accepted
		var cands []string
		for _, n := range nonlib {
			if Info(cur[n]).Class != ClassOK {
				continue
			}
			hit := len(st.Patterns) == 0 && st.Cwd == n
			for _, pt := range st.Patterns {
				switch {
				case pt == "./..." && st.Cwd == "", pt == "example.com/...":
					hit = true
				case (pt == "." || pt == "./...") && st.Cwd == n:
					hit = true
				case pt == "./"+n, pt == "../"+n, pt == "example.com/"+n:
					hit = true
				}
			}
			if hit {
				cands = append(cands, n)
			}
		}
		if len(cands) > 0 && r.IntN(8) != 0 {
			tgt = pick(r, cands)
		}
		// write faults address the package directory, not a file name: they hit the
		// Nth write-like operation there, whatever file a (changed) wire writes first
		outName := "/" + tgt + "/"
		nth := 1
		if r.IntN(4) == 0 {
			nth = 2 + r.IntN(2)
		}
		var kinds []string
		switch st.Cmd {
		case "gen", "default":
			kinds = []string{"hdr-missing", "hdr-dir", "hdr-eio", "hdr-notgo", "w-err", "w-err", "w-short", "w-crash-before", "w-crash-trunc", "w-crash-mid", "w-crash-mid", "w-crash-after", "w-close", "getwd", "nogo"}
			if st.Cmd == "default" {
				kinds = kinds[4:]
			}
		case "diff":
			kinds = []string{"hdr-missing", "hdr-dir", "hdr-eio", "hdr-notgo", "r-out", "r-out", "getwd", "nogo"}
		default:
			kinds = []string{"getwd", "nogo"}
		}
		switch k := pick(r, kinds); k {
		case "hdr-missing":
			st.Header = "missing"
		case "hdr-dir":
			st.Header = "dir"
		case "hdr-notgo":
			st.Header = "notgo"
		case "hdr-eio":
			st.Header = "good"
			st.Faults = append(st.Faults, world.Fault{Op: "read", Path: "hdr.txt", Nth: 1, Kind: "eio"})
		case "w-err":
			st.Faults = append(st.Faults, world.Fault{Op: "write", Path: outName, Nth: nth, Kind: pick(r, []string{"err-eacces", "err-enospc", "err-erofs", "err-eio"})})
		case "w-close":
			st.Faults = append(st.Faults, world.Fault{Op: "write", Path: outName, Nth: nth, Kind: pick(r, []string{"close-eio", "close-enospc", "sync-eio"})})
		case "w-short":
			st.Faults = append(st.Faults, world.Fault{Op: "write", Path: outName, Nth: nth, Kind: "short", N: r.IntN(1000)})
		case "w-crash-before", "w-crash-trunc", "w-crash-after":
			st.Faults = append(st.Faults, world.Fault{Op: "write", Path: outName, Nth: nth, Kind: k[2:]})
		case "w-crash-mid":
			st.Faults = append(st.Faults, world.Fault{Op: "write", Path: outName, Nth: nth, Kind: "crash-mid", N: r.IntN(1000)})
		case "r-out":
			st.Faults = append(st.Faults, world.Fault{Op: "read", Path: "/" + tgt + "/wire_gen.go", Nth: 1, Kind: pick(r, []string{"eio", "eacces"})})
		case "getwd":
			st.Faults = append(st.Faults, world.Fault{Op: "getwd", Nth: 1, Kind: "enoent"})
		case "nogo":
			st.NoGo = true
			st.GoFault = pick(r, []string{"", "", "list-exit1", "list-killed-midway", "list-partial"})
		}
	}
	return st
}
