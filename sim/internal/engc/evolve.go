package engc

import (
	"bytes"
	"encoding/json"
	"fmt"
	"math/rand/v2"
	"os"
	"path/filepath"
	"strings"

	"verif/sim/internal/common"
	"verif/sim/internal/progen"
	"verif/sim/internal/world"
)

// EvolveCase is a history over GENERATED programs: generate for module Before,
// switch the sources to module After (the outputs stay), generate again and
// compare with what a pristine checkout of After gets (C18 R1), then gen again
// (R2) and diff (R3). Before's outputs are rich, realistic stale files: import
// aliases, value variables, many injectors, copied declarations.
type EvolveCase struct {
	Evolve bool           `json:"evolve"`
	Before *progen.Module `json:"before"`
	After  *progen.Module `json:"after"`
	Iter   string         `json:"iter"`
	Header bool           `json:"header,omitempty"` // first gen with -header_file, second without
	Tweak  string         `json:"tweak,omitempty"`  // between the two gens: "aliases" (every import of every output gets an explicit different name), "tail" (a left-over tail is appended), "cut" (outputs torn in the middle)
}

func cloneModule(m *progen.Module) *progen.Module {
	data, _ := json.Marshal(m)
	out := new(progen.Module)
	json.Unmarshal(data, out)
	return out
}

// GenEvolveCase draws a module and a sibling with some injectors removed (in either direction).
func GenEvolveCase(r *rand.Rand) *EvolveCase {
	k := progen.RandomKnobs(r, false)
	k.NPkgs = 2 + r.IntN(4)
	k.InjPerPkg = 2 + r.IntN(3)
	k.Adversary = r.IntN(2) == 0
	k.ValuePct = 30
	m := progen.Generate(r, k)
	small := cloneModule(m)
	var keep []*progen.Injector
	for _, inj := range small.Injectors {
		if r.IntN(2) == 0 {
			keep = append(keep, inj)
		}
	}
	if len(keep) == 0 && len(small.Injectors) > 0 {
		keep = small.Injectors[:1]
	}
	if len(keep) == len(small.Injectors) && len(keep) > 1 {
		keep = keep[1:]
	}
	small.Injectors = keep
	c := &EvolveCase{Evolve: true, Before: m, After: small, Iter: []string{"asc", "desc", fmt.Sprintf("shuffle:%d", r.IntN(100000))}[r.IntN(3)], Header: r.IntN(5) == 0, Tweak: []string{"", "aliases", "aliases", "tail", "cut", "crlf", "reorder"}[r.IntN(7)]}
	switch r.IntN(4) {
	case 0:
		c.Before, c.After = small, m
	case 1:
		c.After = c.Before // unchanged sources: only the outputs were touched in between
		if c.Tweak == "" {
			c.Tweak = "tail"
		}
		c.Header = false
	}
	return c
}

func writeModule(w *world.World, m *progen.Module) error {
	app, _ := m.Files(false)
	for _, f := range app {
		if err := w.WriteFile(f.Path, f.Data); err != nil {
			return err
		}
	}
	return nil
}

func removeSources(w *world.World, m *progen.Module) {
	for _, p := range m.Pkgs {
		if p.Idx < m.Ext {
			continue
		}
		dir := filepath.Join(w.AppDir, filepath.FromSlash(p.Path))
		ents, _ := os.ReadDir(dir)
		for _, e := range ents {
			if !e.IsDir() && !strings.HasSuffix(e.Name(), "wire_gen.go") {
				os.Remove(filepath.Join(dir, e.Name()))
			}
		}
	}
}

// RunEvolveCase executes the case.
func (e *Engine) RunEvolveCase(c *EvolveCase, dir string) *Outcome {
	out := &Outcome{}
	logf := func(f string, a ...interface{}) { out.Log = append(out.Log, fmt.Sprintf(f, a...)) }
	app, ext := c.Before.Files(false)
	app = append(app, world.File{Path: "hdr.txt", Data: []byte(headerText)})
	w, err := world.New(filepath.Join(dir, "w"), world.LayoutMod, "", e.B.MarkerGo, app, ext...)
	if err != nil {
		out.Infra = err.Error()
		return out
	}
	plan := func(i int, iter string) *world.Plan {
		return &world.Plan{Seed: uint64(i), Iter: iter, Clock: int64(1000000000 + i*99999), Pid: 10 + i, Host: fmt.Sprintf("h%d", i)}
	}
	args := []string{"gen"}
	if c.Header {
		args = append(args, "-header_file", filepath.Join(w.AppDir, "hdr.txt"))
	}
	r1 := w.Exec(e.B.WireSim, w.AppDir, plan(1, "asc"), dir, nil, append(args, "./...")...)
	e.Stats.Commands.Add("evolve:gen", 1)
	out.Steps++
	if r1.TimedOut {
		out.Infra = "watchdog: gen timed out"
		return out
	}
	if r1.Exit != 0 {
		logf("first gen rejected: %s", firstLines(w.Scrub(r1.Stderr), 3))
		e.Stats.Counts.Add("evolve_rejected_by_wire", 1)
		return out
	}
	if c.Tweak != "" {
		for _, p := range c.Before.Pkgs {
			path := filepath.Join(w.AppDir, filepath.FromSlash(p.Path), "wire_gen.go")
			data, err := os.ReadFile(path)
			if err != nil {
				continue
			}
			switch c.Tweak {
			case "aliases":
				data = TweakOutput(data)
			case "tail":
				data = append(data, []byte("\n// left-over tail of an older, longer output\nfunc StaleTail() {}\n")...)
			case "cut":
				if i := bytes.Index(data, []byte("\npackage ")); i > 0 {
					data = data[:i+(len(data)-i)/2]
				}
			case "crlf":
				data = []byte(strings.ReplaceAll(string(data), "\n", "\r\n"))
			case "reorder":
				// the same declarations in reverse order
				parts := strings.Split(string(data), "\n\nfunc ")
				if len(parts) > 2 {
					head, funcs := parts[0], parts[1:]
					for i, j := 0, len(funcs)-1; i < j; i, j = i+1, j-1 {
						funcs[i], funcs[j] = funcs[j], funcs[i]
					}
					data = []byte(head + "\n\nfunc " + strings.Join(funcs, "\n\nfunc "))
				}
			}
			os.WriteFile(path, data, 0666)
		}
	}
	// switch the sources, keep the outputs
	removeSources(w, c.Before)
	if err := writeModule(w, c.After); err != nil {
		out.Infra = err.Error()
		return out
	}
	r2 := w.Exec(e.B.WireSim, w.AppDir, plan(2, c.Iter), dir, nil, "gen", "./...")
	e.Stats.Commands.Add("evolve:gen", 1)
	out.Steps++
	if r2.TimedOut {
		out.Infra = "watchdog: gen timed out"
		return out
	}
	if r2.Exit != 0 {
		logf("second gen failed: %s", firstLines(w.Scrub(r2.Stderr), 3))
	}
	// pristine checkout of After
	papp, pext := c.After.Files(false)
	pw, err := world.New(filepath.Join(dir, "p"), world.LayoutMod, "", e.B.MarkerGo, papp, pext...)
	if err != nil {
		out.Infra = err.Error()
		return out
	}
	pr := pw.Exec(e.B.WireSim, pw.AppDir, plan(3, "asc"), dir, nil, "gen", "./...")
	e.Stats.Commands.Add("evolve:fresh-gen", 1)
	if pr.TimedOut {
		out.Infra = "watchdog: gen timed out"
		return out
	}
	if pr.Exit != 0 {
		logf("pristine gen of the new sources rejected: %s", firstLines(pw.Scrub(pr.Stderr), 3))
		e.Stats.Counts.Add("evolve_rejected_by_wire", 1)
		return out
	}
	if r2.Exit != 0 {
		out.Verdicts = append(out.Verdicts, common.Verdict{Property: "C18", Clause: "R1", Disc: "gen/fails-over-previous-outputs", Expected: "exit 0 (a pristine checkout of the same sources generates)", Observed: fmt.Sprintf("exit %d: %s", r2.Exit, firstLines(w.Scrub(r2.Stderr), 3)), Detail: "evolving generated module"})
		return out
	}
	checked := 0
	for _, p := range c.After.Pkgs {
		if p.Idx < c.After.Ext {
			continue
		}
		want, werr := os.ReadFile(filepath.Join(pw.AppDir, filepath.FromSlash(p.Path), "wire_gen.go"))
		if werr != nil {
			continue // nothing generated for this package now: no expectation on a left-over
		}
		got, gerr := os.ReadFile(filepath.Join(w.AppDir, filepath.FromSlash(p.Path), "wire_gen.go"))
		checked++
		if gerr != nil || !bytes.Equal(want, got) {
			obs := "absent"
			if gerr == nil {
				obs = firstDiffLines(want, got)
			}
			out.Verdicts = append(out.Verdicts, common.Verdict{Property: "C18", Clause: "R1", Disc: "gen/output-differs-from-fresh-checkout", Expected: digest(want), Observed: obs, Detail: fmt.Sprintf("package %s of an evolving generated module (gen, switch sources, gen under %s)", p.Path, c.Iter)})
			break
		}
	}
	logf("second gen: %d packages equal to a fresh checkout", checked)
	if len(out.Verdicts) == 0 {
		e.Stats.Counts.Add("evolve_outputs_equal_fresh", checked)
		e.Stats.States.Add(fmt.Sprintf("evolve:%d->%d injectors:%d pkgs:hdr=%v", len(c.Before.Injectors), len(c.After.Injectors), len(c.After.Pkgs), c.Header))
		// R2 / R3
		before := world.Snap(w.AppDir)
		r3 := w.Exec(e.B.WireSim, w.AppDir, plan(4, "desc"), dir, nil, "gen", "./...")
		e.Stats.Commands.Add("evolve:gen-again", 1)
		if d := world.Delta(before, world.Snap(w.AppDir)); r3.Exit != 0 || len(d) > 0 {
			out.Verdicts = append(out.Verdicts, common.Verdict{Property: "C18", Clause: "R2", Disc: "gen-again/changes-something", Expected: "exit 0, no change", Observed: fmt.Sprintf("exit %d delta %v", r3.Exit, d), Detail: "evolving generated module"})
		}
		r4 := w.Exec(e.B.WireSim, w.AppDir, plan(5, "asc"), dir, nil, "diff", "./...")
		e.Stats.Commands.Add("evolve:diff", 1)
		if r4.Exit != 0 || strings.TrimSpace(r4.Stdout) != "" {
			out.Verdicts = append(out.Verdicts, common.Verdict{Property: "C18", Clause: "R3", Disc: "diff-after-gen/reports-difference", Expected: "exit 0, empty stdout", Observed: fmt.Sprintf("exit %d stdout %q", r4.Exit, firstLines(w.Scrub(r4.Stdout), 4)), Detail: "evolving generated module"})
		}
	}
	return out
}

func firstDiffLines(a, b []byte) string {
	la, lb := strings.Split(string(a), "\n"), strings.Split(string(b), "\n")
	for i := 0; i < len(la) && i < len(lb); i++ {
		if la[i] != lb[i] {
			return fmt.Sprintf("line %d: %q vs %q", i+1, la[i], lb[i])
		}
	}
	return fmt.Sprintf("lengths %d vs %d lines", len(la), len(lb))
}
