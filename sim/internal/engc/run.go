package engc

import (
	"bytes"
	"crypto/sha256"
	"encoding/hex"
	"fmt"
	"os"
	"os/exec"
	"path/filepath"
	"sort"
	"strconv"
	"strings"
	"sync"
	"time"

	"verif/sim/internal/common"
	"verif/sim/internal/world"
)

// Stats collects reach counters of a batch.
type Stats struct {
	Counts      common.Counter
	FaultsFired common.Counter
	FaultsConf  common.Counter
	States      common.Set // abstract (state, command, fault) triples
	Schedules   common.Set // digests of realised seam traces
	Commands    common.Counter
}

// Engine runs histories against one build.
type Engine struct {
	B        *common.Build
	Prop     string
	Stats    *Stats
	freshMu  sync.Mutex
	freshMem map[string]*freshResult
	dupOnce  sync.Once
	dupOK    bool
	cycOnce  sync.Once
	cycOK    bool
}

// DuplicatesRejected is the premise of the only label-derived expectation of
// C19 ("a set variable that lists one provider twice is malformed"): it holds
// if wire itself rejects the same defect when an injector uses it. If a change
// to the accept rules makes wire accept duplicates, such sets are well-formed
// by wire's own rules and check/show need not fail for them.
func (e *Engine) DuplicatesRejected(scratch string) bool {
	e.dupOnce.Do(func() {
		dir, err := os.MkdirTemp(scratch, "dup-")
		if err != nil {
			return
		}
		defer os.RemoveAll(dir)
		files := append(Sources("lib", "lib_ok", 1), Sources("pa", "bad_multi", 1)...)
		w, err := world.New(dir, world.LayoutMod, "", e.B.MarkerGo, files)
		if err != nil {
			return
		}
		res := w.Exec(e.B.WireSim, w.AppDir, &world.Plan{Seed: 1, Iter: "asc"}, dir, nil, "gen", "./pa")
		e.dupOK = res.Exit != 0 && strings.Contains(res.Stderr, "multiple bindings")
		if !e.dupOK {
			e.Stats.Counts.Add("premise_duplicates_not_rejected_by_wire", 1)
		}
	})
	return e.dupOK
}

// CyclesRejected is the same kind of premise for the variant whose unused set is
// cyclic: trusted only if wire rejects the combined set when an injector uses it.
func (e *Engine) CyclesRejected(scratch string) bool {
	e.cycOnce.Do(func() {
		dir, err := os.MkdirTemp(scratch, "cyc-")
		if err != nil {
			return
		}
		defer os.RemoveAll(dir)
		w, err := world.New(dir, world.LayoutMod, "", e.B.MarkerGo, Sources("pa", "probe_cycleset_used", 1))
		if err != nil {
			return
		}
		res := w.Exec(e.B.WireSim, w.AppDir, &world.Plan{Seed: 1, Iter: "asc"}, dir, nil, "gen", "./pa")
		e.cycOK = res.Exit != 0 && strings.Contains(res.Stderr, "cycle for")
		if !e.cycOK {
			e.Stats.Counts.Add("premise_cycles_not_rejected_by_wire", 1)
		}
	})
	return e.cycOK
}

// NewEngine creates an engine.
func NewEngine(b *common.Build, prop string) *Engine {
	return &Engine{B: b, Prop: prop, Stats: &Stats{}, freshMem: map[string]*freshResult{}}
}

type pkgState struct {
	name    string
	variant string
	n       int
	outMode map[string]string // output file name -> how it got its content (for the state measure)
}

type sim struct {
	e       *Engine
	c       *Case
	w       *world.World
	scratch string
	pkgs    []*pkgState
	log     []string
	verdict []common.Verdict
	traces  map[int][]string // step index -> seam trace of the command executed there
}

func (s *sim) pkg(name string) *pkgState {
	for _, p := range s.pkgs {
		if p.name == name {
			return p
		}
	}
	return nil
}

func (s *sim) logf(format string, args ...interface{}) {
	s.log = append(s.log, fmt.Sprintf(format, args...))
}

func (s *sim) violate(prop, clause, disc, expected, observed, detail string) {
	s.verdict = append(s.verdict, common.Verdict{Property: prop, Clause: clause, Disc: disc, Expected: expected, Observed: observed, Detail: detail})
	s.logf("  VERDICT %s %s/%s expected=%s observed=%s", prop, clause, disc, expected, observed)
}

const headerText = "// Copyright header for tests.\n// Second line.\n\n"

// headerNotGo is a readable header file whose text cannot stand in front of a Go
// file (licence text without comment markers): an unusable option of another kind
// than a missing file — generation fails for every package that has output.
const headerNotGo = "Copyright 2026 The Example Authors.\nLicensed under the Example License (no comment markers here).\n\n"

// sourcesOf returns all source files of the current variants.
func sourcesOf(pkgs []*pkgState) []world.File {
	var files []world.File
	for _, p := range pkgs {
		files = append(files, Sources(p.name, p.variant, p.n)...)
	}
	files = append(files, world.File{Path: "hdr.txt", Data: []byte(headerText)})
	files = append(files, world.File{Path: "hdr_notgo.txt", Data: []byte(headerNotGo)})
	return files
}

// Outcome of a whole case.
type Outcome struct {
	Verdicts []common.Verdict
	Log      []string
	Steps    int
	Infra    string // non-empty: harness trouble (exit 2)
	Traces   map[int][]string
	AppDir   string
}

// RunCase executes one history. dir is a private scratch directory.
func (e *Engine) RunCase(c *Case, dir string) *Outcome {
	s := &sim{e: e, c: c, scratch: dir, traces: map[int][]string{}}
	for _, p := range c.Pkgs {
		s.pkgs = append(s.pkgs, &pkgState{name: p.Name, variant: p.Variant, n: p.N, outMode: map[string]string{}})
	}
	w, err := world.New(filepath.Join(dir, "w"), c.Layout, "", e.B.MarkerGo, sourcesOf(s.pkgs))
	if err != nil {
		return &Outcome{Infra: "world: " + err.Error()}
	}
	s.w = w
	out := &Outcome{}
	for i, st := range c.Steps {
		s.logf("step %d: %s", i, st)
		if infra := s.step(i, st); infra != "" {
			out.Infra = infra
			break
		}
		out.Steps++
	}
	out.Verdicts = s.verdict
	out.Log = s.log
	out.Traces = s.traces
	out.AppDir = w.AppDir
	return out
}

func (s *sim) pkgDir(name string) string { return filepath.Join(s.w.AppDir, name) }

// outputs lists generated-looking files of a package directory: name -> content (nil for directories).
func (s *sim) outputs(name string) map[string][]byte {
	res := map[string][]byte{}
	ents, _ := os.ReadDir(s.pkgDir(name))
	for _, e := range ents {
		if strings.HasSuffix(e.Name(), "wire_gen.go") {
			if e.IsDir() {
				res[e.Name()] = nil
				continue
			}
			data, err := os.ReadFile(filepath.Join(s.pkgDir(name), e.Name()))
			if err != nil {
				data = []byte{}
			}
			if data == nil {
				data = []byte{}
			}
			res[e.Name()] = data
		}
	}
	return res
}

// inPremise reports whether a left-over output still carries the generated
// build constraint (C18's premise): a `//go:build !wireinject` line before the
// package clause, and no NUL byte.
func inPremise(data []byte) bool {
	if data == nil {
		return true // a directory is ignored by the loader
	}
	if bytes.IndexByte(data, 0) >= 0 {
		return false
	}
	for _, l := range strings.SplitAfter(string(data), "\n") {
		if !strings.HasSuffix(l, "\n") {
			return false // cut inside the header
		}
		t := strings.TrimSpace(l)
		if t == "//go:build !wireinject" {
			return true
		}
		if strings.HasPrefix(t, "package ") {
			return false
		}
		if t != "" && !strings.HasPrefix(t, "//") {
			return false
		}
	}
	return false
}

func (s *sim) step(idx int, st Step) string {
	switch st.Op {
	case "setvariant":
		p := s.pkg(st.Pkg)
		if p == nil {
			return ""
		}
		// remove the sources, keep outputs
		ents, _ := os.ReadDir(s.pkgDir(p.name))
		for _, e := range ents {
			if !strings.HasSuffix(e.Name(), "wire_gen.go") {
				os.RemoveAll(filepath.Join(s.pkgDir(p.name), e.Name()))
			}
		}
		p.variant, p.n = st.Variant, st.N
		for _, f := range Sources(p.name, p.variant, p.n) {
			if err := s.w.WriteFile(f.Path, f.Data); err != nil {
				return "write sources: " + err.Error()
			}
		}
	case "delete":
		p := s.pkg(st.Pkg)
		if p == nil {
			return ""
		}
		for name := range s.outputs(p.name) {
			os.RemoveAll(filepath.Join(s.pkgDir(p.name), name))
		}
		p.outMode = map[string]string{}
	case "corrupt":
		p := s.pkg(st.Pkg)
		if p == nil {
			return ""
		}
		s.corrupt(p, st)
	case "touch":
		// modification times are history too: make sources or outputs look older / newer
		p := s.pkg(st.Pkg)
		if p == nil {
			return ""
		}
		ents, _ := os.ReadDir(s.pkgDir(p.name))
		for _, e := range ents {
			isOut := strings.HasSuffix(e.Name(), "wire_gen.go")
			var t time.Time
			switch {
			case st.Mode == "sources-old" && !isOut, st.Mode == "output-old" && isOut, st.Mode == "all-old":
				t = time.Now().Add(-72 * time.Hour)
			case st.Mode == "sources-new" && !isOut, st.Mode == "output-new" && isOut:
				t = time.Now().Add(72 * time.Hour)
			default:
				continue
			}
			os.Chtimes(filepath.Join(s.pkgDir(p.name), e.Name()), t, t)
		}
	case "cmd":
		return s.cmd(idx, st)
	}
	return ""
}

const genHeader = "// Code generated by Wire. DO NOT EDIT.\n\n//go:generate go run -mod=mod github.com/google/wire/cmd/wire\n//go:build !wireinject\n// +build !wireinject\n\n"

func (s *sim) corrupt(p *pkgState, st Step) {
	name := st.Prefix + "wire_gen.go"
	path := filepath.Join(s.pkgDir(p.name), name)
	os.RemoveAll(path)
	var data []byte
	switch st.Mode {
	case "stale":
		data = []byte(genHeader + "package " + p.name + "\n\n// Injectors from wire.go:\n\nfunc InitBar() Bar {\n\tfoo := ProvideFooOld()\n\tbar := ProvideBar(foo)\n\treturn bar\n}\n\nfunc InitGone() Gone {\n\treturn Gone{}\n}\n")
	case "tweaked":
		// the previous output with every import given an explicit (different) name and
		// a few identifiers renamed: what a tool that "reuses parts of the old file" would pick up
		cur := s.outputs(p.name)[name]
		if len(cur) == 0 || !inPremise(cur) {
			cur = []byte(genHeader + "package " + p.name + "\n\nimport (\n\t\"example.com/lib\"\n)\n\nfunc InitBar() Bar {\n\tfoo := ProvideFooOld()\n\tbar := ProvideBar(foo)\n\treturn bar\n}\n")
		}
		data = TweakOutput(cur)
	case "crlf":
		// the current output as a checkout with autocrlf would leave it
		cur := s.outputs(p.name)[name]
		if len(cur) == 0 || !inPremise(cur) {
			cur = []byte(genHeader + "package " + p.name + "\n\nfunc InitBar() Bar {\n\tfoo := ProvideFooOld()\n\tbar := ProvideBar(foo)\n\treturn bar\n}\n")
		}
		data = []byte(strings.ReplaceAll(strings.ReplaceAll(string(cur), "\r\n", "\n"), "\n", "\r\n"))
	case "tail":
		// the current output followed by a left-over tail (a file that merely STARTS with what gen would write)
		cur := s.outputs(p.name)[name]
		if len(cur) == 0 || !inPremise(cur) {
			cur = []byte(genHeader + "package " + p.name + "\n\nfunc InitBar() Bar {\n\tfoo := ProvideFooOld()\n\tbar := ProvideBar(foo)\n\treturn bar\n}\n")
		}
		data = append(append([]byte{}, cur...), []byte("\n// left-over tail of an older, longer output\nfunc StaleTail() {}\n")...)
	case "noted":
		// a previous output that somebody annotated by hand above the generated marker
		cur := s.outputs(p.name)[name]
		if len(cur) == 0 || !inPremise(cur) {
			cur = []byte(genHeader + "package " + p.name + "\n\nfunc InitBar() Bar {\n\tfoo := ProvideFooOld()\n\tbar := ProvideBar(foo)\n\treturn bar\n}\n")
		}
		data = append([]byte("// NOTE(bob): hand-edited, do not lose this line.\n// Licensed under the Example License.\n\n"), cur...)
	case "noncompiling":
		data = []byte(genHeader + "package " + p.name + "\n\nfunc InitBar( {\n\treturn 1 +\n")
	case "garbage":
		data = []byte(genHeader + "@@@ this is not Go at all $$$\n\x7f\x01 <<<>>> ``` \"unterminated\n")
	case "constraint_only":
		data = []byte("//go:build !wireinject\n// +build !wireinject\n")
	case "otherpkg":
		data = []byte(genHeader + "package zzz\n\nimport \"nonexistent/pkg\"\n\nvar X = pkg.Y\n")
	case "longer":
		// a stale file much longer than anything gen writes here (exposes overwrite without truncation)
		data = []byte(genHeader + "package " + p.name + "\n\n" + strings.Repeat("// padding padding padding padding padding padding padding\n", 200) + "func StaleTail() {}\n")
	case "torn":
		cur := s.outputs(p.name)[name]
		base := cur
		if len(base) == 0 || !inPremise(base) {
			base = []byte(genHeader + "package " + p.name + "\n\nimport (\n\t\"fmt\"\n)\n\nfunc InitBar() Bar {\n\tfoo := ProvideFoo1()\n\tbar := ProvideBar(foo)\n\treturn bar\n}\n")
		}
		min := bytes.Index(base, []byte("//go:build !wireinject\n"))
		if min < 0 {
			min = 0
		} else {
			min += len("//go:build !wireinject\n")
		}
		cut := min + (len(base)-min)*st.Cut/1000
		data = base[:cut]
	case "dir":
		os.MkdirAll(path, 0777)
		os.WriteFile(filepath.Join(path, "keep.txt"), []byte("x"), 0666)
		p.outMode[name] = "dir"
		return
	case "noconstraint": // outside C18's premise
		data = []byte("package " + p.name + "\n\nfunc InitBar() Bar { return Bar{} }\n")
	case "nul": // outside the premise
		data = []byte(genHeader + "package " + p.name + "\n\x00\x00\n")
	case "empty": // outside the premise
		data = []byte{}
	}
	os.WriteFile(path, data, 0666)
	p.outMode[name] = st.Mode
}

// targets resolves the command line to package names (our own fixed vocabulary).
func (s *sim) targets(st Step) []string {
	pats := st.Patterns
	if len(pats) == 0 {
		pats = []string{"."}
	}
	seen := map[string]bool{}
	var out []string
	add := func(n string) {
		if s.pkg(n) != nil && !seen[n] {
			seen[n] = true
			out = append(out, n)
		}
	}
	all := func() {
		for _, p := range s.pkgs {
			add(p.name)
		}
	}
	for _, p := range pats {
		switch {
		case p == "./..." && st.Cwd == "", p == "example.com/...":
			all()
		case p == "./..." || p == ".":
			add(st.Cwd)
		case strings.HasPrefix(p, "./"):
			add(p[2:])
		case strings.HasPrefix(p, "../"):
			add(p[3:])
		case strings.HasPrefix(p, "example.com/"):
			add(p[len("example.com/"):])
		}
	}
	sort.Strings(out)
	return out
}

func (s *sim) argv(st Step, w *world.World) []string {
	var args []string
	if st.Cmd != "default" {
		args = append(args, st.Cmd)
	}
	switch st.Header {
	case "good":
		args = append(args, "-header_file", filepath.Join(w.AppDir, "hdr.txt"))
	case "missing":
		args = append(args, "-header_file", filepath.Join(w.AppDir, "no-such-header.txt"))
	case "dir":
		args = append(args, "-header_file", w.AppDir)
	case "notgo":
		args = append(args, "-header_file", filepath.Join(w.AppDir, "hdr_notgo.txt"))
	}
	if st.Prefix != "" && st.Cmd == "gen" {
		args = append(args, "-output_file_prefix", st.Prefix)
	}
	if st.Tags != "" {
		args = append(args, "-tags", st.Tags)
	}
	return append(args, st.Patterns...)
}

func cwdOf(w *world.World, st Step) string {
	if st.Cwd == "" {
		return w.AppDir
	}
	return filepath.Join(w.AppDir, st.Cwd)
}

// ---------------------------------------------------------------- fresh checkout reference

type freshResult struct {
	exit   int
	stderr string // scrubbed
	stdout string // scrubbed
	out    map[string][]byte // pkg -> bytes of <dir>/wire_gen.go (absent = none)
	infra  string
	once   sync.Once
}

// fresh runs `cmd` (gen or show or check) with st's header/tags/patterns/cwd, fault-free and with
// ascending iteration, on a pristine tree holding only the current sources.
func (s *sim) fresh(cmd string, st Step) *freshResult {
	var key strings.Builder
	fmt.Fprintf(&key, "%s|%s|", s.c.Layout, cmd)
	for _, p := range s.pkgs {
		fmt.Fprintf(&key, "%s=%s/%d;", p.name, p.variant, p.n)
	}
	hdr := st.Header
	if cmd != "gen" || hdr == "missing" || hdr == "dir" || hdr == "notgo" {
		hdr = "" // the reference run uses usable options only
	}
	fmt.Fprintf(&key, "|h=%s|t=%s|cwd=%s|%s", hdr, st.Tags, st.Cwd, strings.Join(st.Patterns, " "))
	e := s.e
	e.freshMu.Lock()
	fr := e.freshMem[key.String()]
	if fr == nil {
		fr = &freshResult{}
		e.freshMem[key.String()] = fr
	}
	e.freshMu.Unlock()
	fr.once.Do(func() {
		dir, err := os.MkdirTemp(s.scratch, "fresh-")
		if err != nil {
			fr.infra = err.Error()
			return
		}
		defer os.RemoveAll(dir)
		w, err := world.New(dir, s.c.Layout, "", e.B.MarkerGo, sourcesOf(s.pkgs))
		if err != nil {
			fr.infra = err.Error()
			return
		}
		fst := Step{Op: "cmd", Cmd: cmd, Cwd: st.Cwd, Patterns: st.Patterns, Header: hdr, Tags: st.Tags}
		res := w.Exec(e.B.WireSim, cwdOf(w, fst), &world.Plan{Seed: 1, Iter: "asc", Clock: 1000000000, Pid: 4242, Host: "simhost"}, dir, nil, s.argv(fst, w)...)
		e.Stats.Commands.Add("fresh:"+cmd, 1)
		if res.TimedOut {
			fr.infra = "watchdog: fresh " + cmd + " timed out"
			return
		}
		fr.exit = res.Exit
		fr.stderr = w.Scrub(res.Stderr)
		fr.stdout = w.Scrub(res.Stdout)
		fr.out = map[string][]byte{}
		for _, p := range s.pkgs {
			data, err := os.ReadFile(filepath.Join(w.AppDir, p.name, "wire_gen.go"))
			if err == nil {
				fr.out[p.name] = data
			}
		}
	})
	return fr
}

// freshAlone runs `gen ./<p>` fault-free on a pristine tree holding only p (and lib, which
// some variants import). Its DIAGNOSTICS decide whether p's label may be trusted (the premise
// rule): what wire says about a package when it is generated on its own cannot be influenced
// by the other packages of an invocation - unlike the reference run of the same command, in
// which a defect in per-invocation bookkeeping may silence or invent diagnostics.
func (s *sim) freshAlone(p *pkgState) *freshResult {
	lib := s.pkg("lib")
	key := fmt.Sprintf("%s|alone|%s=%s/%d", s.c.Layout, p.name, p.variant, p.n)
	pkgs := []*pkgState{p}
	if lib != nil && lib != p {
		key += fmt.Sprintf("|lib=%s/%d", lib.variant, lib.n)
		pkgs = []*pkgState{lib, p}
	}
	e := s.e
	e.freshMu.Lock()
	fr := e.freshMem[key]
	if fr == nil {
		fr = &freshResult{}
		e.freshMem[key] = fr
	}
	e.freshMu.Unlock()
	fr.once.Do(func() {
		dir, err := os.MkdirTemp(s.scratch, "alone-")
		if err != nil {
			fr.infra = err.Error()
			return
		}
		defer os.RemoveAll(dir)
		w, err := world.New(dir, s.c.Layout, "", e.B.MarkerGo, sourcesOf(pkgs))
		if err != nil {
			fr.infra = err.Error()
			return
		}
		res := w.Exec(e.B.WireSim, w.AppDir, &world.Plan{Seed: 1, Iter: "asc", Clock: 1000000000, Pid: 4242, Host: "simhost"}, dir, nil, "gen", "./"+p.name)
		e.Stats.Commands.Add("fresh:gen-alone", 1)
		if res.TimedOut {
			fr.infra = "watchdog: fresh gen (package alone) timed out"
			return
		}
		fr.exit = res.Exit
		fr.stderr = w.Scrub(res.Stderr)
		fr.stdout = w.Scrub(res.Stdout)
		fr.out = map[string][]byte{}
		if data, err := os.ReadFile(filepath.Join(w.AppDir, p.name, "wire_gen.go")); err == nil {
			fr.out[p.name] = data
		}
	})
	return fr
}

// diagLines returns the scrubbed stderr lines that are positioned in package p's directory.
func diagLines(stderr, p string) []string {
	var out []string
	for _, l := range strings.Split(stderr, "\n") {
		i := strings.Index(l, "$APP/"+p+"/")
		if i < 0 || strings.Contains(l, ": wrote ") {
			continue
		}
		if strings.Contains(l[i:], ".go:") { // file:line:col position
			out = append(out, l)
		}
	}
	return out
}

// premise: does wire's own verdict on the pristine tree agree with the variant's label?
func premiseOK(fr *freshResult, p *pkgState) bool {
	vi := Info(p.variant)
	d := diagLines(fr.stderr, p.name)
	failedLine := strings.Contains(fr.stderr, "example.com/"+p.name+": generate failed")
	switch vi.Class {
	case ClassOK, ClassNone:
		return len(d) == 0 && !failedLine
	case ClassBad:
		for _, l := range d {
			if strings.Contains(l, vi.Stem) {
				return true
			}
		}
		// multi-line diagnostics: the stem may be on a continuation line; a defect of a library set this package
		// uses is positioned in the library's file (fr is the run of this package ALONE: all of stderr is about it)
		return (len(d) > 0 || failedLine) && strings.Contains(fr.stderr, vi.Stem)
	}
	return true
}

func digest(b []byte) string {
	if b == nil {
		return "absent"
	}
	h := sha256.Sum256(b)
	return fmt.Sprintf("%d:%s", len(b), hex.EncodeToString(h[:6]))
}

// ---------------------------------------------------------------- one command

func (s *sim) cmd(idx int, st Step) string {
	e := s.e
	T := s.targets(st)
	isGen := st.Cmd == "gen" || st.Cmd == "default"
	outName := "wire_gen.go"
	if st.Cmd == "gen" {
		outName = st.Prefix + "wire_gen.go"
	}

	// state before
	wedged := false
	for _, p := range s.pkgs {
		for _, data := range s.outputs(p.name) {
			if !inPremise(data) {
				wedged = true
			}
		}
	}
	before := world.Snap(s.w.AppDir)
	beforeOut := map[string]map[string][]byte{}
	for _, p := range s.pkgs {
		beforeOut[p.name] = s.outputs(p.name)
	}

	// reference run on a pristine tree
	var fr *freshResult
	loadBroken := st.NoGo || st.Header == "missing" || st.Header == "dir"
	needFresh := !wedged
	if needFresh {
		fr = s.fresh("gen", st)
		if fr.infra != "" {
			return fr.infra
		}
	}

	// the run itself
	plan := &world.Plan{Seed: uint64(idx + 1), Iter: st.Iter, Faults: st.Faults, Clock: 1000000000 + int64(idx)*86400*400, Pid: 1000 + idx, Host: fmt.Sprintf("host%d", idx)}
	if plan.Iter == "" {
		plan.Iter = "asc"
	}
	var extra []string
	if st.NoGo && st.GoFault == "" {
		extra = append(extra, "PATH=/nonexistent-bin")
	}
	if st.NoGo && st.GoFault != "" {
		shim, err := goShim(s.scratch)
		if err != nil {
			return "go shim: " + err.Error()
		}
		extra = append(extra, "PATH="+shim+string(os.PathListSeparator)+os.Getenv("PATH"), "VERIF_GO_FAULT="+st.GoFault)
	}
	if st.EnvTags {
		gf := "-tags=integration,e2e"
		if s.c.Layout == world.LayoutModVendor {
			gf = "-mod=vendor " + gf
		}
		extra = append(extra, "GOFLAGS="+gf)
		e.Stats.Counts.Add("probe_goflags_tags_in_environment", 1)
	}
	res := s.w.Exec(e.B.WireSim, cwdOf(s.w, st), plan, s.scratch, extra, s.argv(st, s.w)...)
	e.Stats.Commands.Add(st.Cmd, 1)
	if res.TimedOut {
		return fmt.Sprintf("watchdog: %s timed out", st)
	}
	if res.Exit == 97 {
		return "verifsim: " + res.Stderr
	}
	stderr := s.w.Scrub(res.Stderr)
	fired := res.FaultsFired()
	s.traces[idx] = res.Trace
	for _, f := range st.Faults {
		e.Stats.FaultsConf.Add(f.Op+":"+f.Kind, 1)
	}
	for _, f := range fired {
		e.Stats.FaultsFired.Add(f, 1)
	}
	if st.NoGo {
		k := "env:nogo"
		if st.GoFault != "" {
			k = "env:go-" + st.GoFault
		}
		e.Stats.FaultsConf.Add(k, 1)
		e.Stats.FaultsFired.Add(k, 1)
	}
	if st.Header == "missing" || st.Header == "dir" || st.Header == "notgo" {
		e.Stats.FaultsConf.Add("real:header-"+st.Header, 1)
		e.Stats.FaultsFired.Add("real:header-"+st.Header, 1)
	}
	e.Stats.Schedules.Add(scheduleDigest(res.Trace))
	after := world.Snap(s.w.AppDir)
	delta := world.Delta(before, after)
	s.logf("  exit=%d fired=%v delta=%v stderr=%q", res.Exit, fired, delta, firstLines(stderr, 6))

	// abstract state measure
	{
		var sb strings.Builder
		for _, p := range s.pkgs {
			modes := []string{}
			for n, m := range p.outMode {
				modes = append(modes, n+":"+m)
			}
			sort.Strings(modes)
			tgt := ""
			for _, t := range T {
				if t == p.name {
					tgt = "*"
				}
			}
			fmt.Fprintf(&sb, "%s%s=%s[%s];", tgt, p.name, p.variant, strings.Join(modes, ","))
		}
		fmt.Fprintf(&sb, "|%s|%v|nogo=%v|hdr=%s", st.Cmd, fired, st.NoGo, st.Header)
		e.Stats.States.Add(sb.String())
	}

	crashed := res.Crashed()
	panicked := strings.Contains(res.Stderr, "panic: ") || strings.Contains(res.Stderr, "goroutine 1 [")
	if panicked {
		e.Stats.Counts.Add("panicked_not_judged", 1)
	}
	// go.mod / go.sum touched by the go tool: environment trouble, not a verdict
	for _, d := range delta {
		if strings.HasSuffix(d, "go.mod") || strings.HasSuffix(d, "go.sum") {
			return "environment: go tool modified " + d
		}
	}

	// classify targeted packages
	var okT, badT, typeErrT, disagree []string
	badSet := false
	for _, n := range T {
		p := s.pkg(n)
		vi := Info(p.variant)
		if fr != nil {
			pa := s.freshAlone(p)
			if pa.infra != "" {
				return pa.infra
			}
			if !premiseOK(pa, p) {
				disagree = append(disagree, n)
				continue
			}
		}
		switch vi.Class {
		case ClassOK:
			okT = append(okT, n)
		case ClassBad:
			badT = append(badT, n)
		case ClassTypeErr:
			typeErrT = append(typeErrT, n)
		}
		if vi.BadSet && (vi.Name == "ok_cycleset" && e.CyclesRejected(s.scratch) || vi.Name != "ok_cycleset" && e.DuplicatesRejected(s.scratch)) {
			badSet = true
		}
	}
	for _, pt := range st.Patterns {
		if pt == "./nosuch" {
			// a pattern that names no directory: a load failure of the whole invocation, like a type error
			typeErrT = append(typeErrT, pt)
			e.Stats.Counts.Add("probe_pattern_matching_nothing", 1)
		}
	}
	// A type error anywhere in the import closure of a target breaks the load: lib is imported by some variants.
	if len(disagree) > 0 {
		e.Stats.Counts.Add("classification_disagreement", 1)
		s.logf("  premise fails for %v: no status verdict", disagree)
	}
	if wedged {
		e.Stats.Counts.Add("outside_premise_wedged", 1)
		s.logf("  an output on disk is outside C18's premise: step executed, not judged")
	}
	judgeStatus := !wedged && len(disagree) == 0 && !crashed && !panicked && fr != nil

	// ---------------- F1 footprint (C17)
	allowed := map[string]bool{}
	if isGen {
		for _, n := range append(append([]string{}, okT...), disagree...) {
			allowed[n+"/"+outName] = true
		}
		if wedged {
			// no expectation on which packages generate while the tree is outside the premise
			for _, n := range T {
				allowed[n+"/"+outName] = true
			}
		}
	}
	for _, d := range delta {
		path := d[1:]
		if d[0] == '-' && allowed[path] && writeFaulted(st, filepath.Dir(path), fired) {
			// the write of this very file failed: the statement leaves open what it holds afterwards, and a
			// tool that removes its own half-written output again has not touched anything outside its footprint
			e.Stats.Counts.Add("output_removed_after_failed_write_accepted", 1)
			continue
		}
		if !allowed[path] || d[0] == '-' {
			s.violate("C17", "F1", fmt.Sprintf("%s/footprint", cmdClass(st)), "only "+fmt.Sprint(keys(allowed)), d, "the command touched a path outside its allowed footprint")
			break
		}
	}
	if crashed {
		e.Stats.Counts.Add("crashed_runs", 1)
	}

	// a header that cannot stand in front of a Go file makes generation fail for every package that has output
	hdrNotGo := st.Header == "notgo" && len(okT) > 0
	// gen has no need to read the existing output; a (changed) wire that does - to skip writing identical content,
	// say - may tolerate a read error there and still succeed, or report it: neither breaks "exits 0 exactly when no
	// package produced an error". Such a fault is not a failure the model may demand.
	optionalRead := isGen && !hdrFaulted(st) && len(fired) > 0
	for _, f := range fired {
		if !strings.HasPrefix(f, "read:") {
			optionalRead = false
		}
	}
	if optionalRead {
		e.Stats.Counts.Add("read_fault_on_existing_output_in_gen_status_not_judged", 1)
	}
	faultFired := len(fired) > 0 && !optionalRead || st.NoGo || st.Header == "missing" || st.Header == "dir" || hdrNotGo
	// output path unusable (a directory) for a package that would be written
	dirBlock := false
	if isGen {
		for _, n := range okT {
			if data, ok := beforeOut[n][outName]; ok && data == nil {
				dirBlock = true
			}
		}
	}
	_ = loadBroken

	if judgeStatus {
		loadFails := len(typeErrT) > 0
		switch {
		case isGen:
			// ---------------- F2 status of gen (C17)
			expectFail := loadFails || len(badT) > 0 || faultFired || dirBlock
			if expectFail && res.Exit == 0 {
				why := "a targeted package fails analysis"
				switch {
				case faultFired:
					why = "a fault fired: " + fmt.Sprint(fired) + hdrNote(st)
				case dirBlock:
					why = "an output path is a directory"
				case loadFails:
					why = "a targeted package does not type-check"
				}
				s.violate("C17", "F2", "gen/exit0-despite-failure/"+failClass(st, fired, dirBlock, len(badT) > 0, loadFails), "exit != 0", "exit 0", why)
			}
			if !expectFail && res.Exit != 0 && !optionalRead {
				s.violate("C17", "F2", "gen/nonzero-without-failure", "exit 0", fmt.Sprintf("exit %d", res.Exit), firstLines(stderr, 4))
				if fr.exit == 0 {
					// the same command succeeds on a pristine tree with the same sources: only the history explains the failure
					s.violate("C18", "R0", "gen/fails-because-of-what-is-on-disk", "exit 0 (the same command succeeds on a fresh checkout of the same sources)", fmt.Sprintf("exit %d", res.Exit), fmt.Sprintf("%s; stderr: %s", st, firstLines(stderr, 3)))
				}
			}
			// ---------------- F3 isolation (C17) / R1 history independence (C18)
			loadOK := !loadFails && !st.NoGo && st.Header != "missing" && st.Header != "dir" && st.Header != "notgo" && !firedHas(fired, "getwd") && (!firedHas(fired, "read:") || optionalRead && res.Exit == 0)
			if loadOK {
				for _, n := range okT {
					if writeFaulted(st, n, fired) {
						continue
					}
					if data, ok := beforeOut[n][outName]; ok && data == nil {
						continue // directory in the way
					}
					want := fr.out[n]
					got, present := s.outputs(n)[outName]
					if want == nil {
						// The reference run of the SAME command produced nothing for a package whose label says
						// "has injectors, accepted" and whose diagnostics agree. C17 promises an output for each such
						// package whatever its neighbours do: take the reference from generating this package alone.
						alone := s.fresh("gen", Step{Op: "cmd", Cmd: "gen", Patterns: []string{"./" + n}, Header: st.Header, Tags: ""})
						if alone.infra != "" {
							return alone.infra
						}
						if alone.out[n] == nil || st.Tags != "" && !present {
							if alone.out[n] != nil {
								s.violate("C17", "F5", "gen/no-output-for-accepted-package-with-injectors", "an output file (generating this package alone, without -tags, produces one)", "none, and no diagnostic", fmt.Sprintf("package %s after %s", n, st))
							}
							continue
						}
						if st.Tags != "" {
							continue // bytes differ by the go:generate line; presence was all that could be checked
						}
						want = alone.out[n]
						if !present || !bytes.Equal(got, want) {
							obs := digest(got)
							if !present {
								obs = "absent"
							}
							s.violate("C17", "F3", "gen/other-package-not-generated", digest(want), obs, fmt.Sprintf("package %s after %s (reference: the package generated alone on a pristine tree)", n, st))
						}
						continue
					}
					if !present || !bytes.Equal(got, want) {
						prop, clause := "C18", "R1"
						disc := "gen/output-differs-from-fresh-checkout"
						if len(badT) > 0 || len(fired) > 0 || dirBlock {
							prop, clause = "C17", "F3"
							disc = "gen/other-package-not-generated"
						}
						obs := digest(got)
						if !present {
							obs = "absent"
						}
						s.violate(prop, clause, disc, digest(want), obs, fmt.Sprintf("package %s after %s", n, st))
					} else {
						s.pkg(n).outMode[outName] = "written"
						e.Stats.Counts.Add("outputs_equal_fresh", 1)
						if len(badT) > 0 {
							e.Stats.Counts.Add("probe_ok_and_failing_pkg_in_one_invocation", 1)
						}
						if m := modeBefore(beforeOut[n][outName]); m != "" {
							e.Stats.Counts.Add("probe_gen_over_"+m, 1)
						}
					}
				}
			}
			// ---------------- F6 (C17): diff of ONE package right after a gen over several must report no difference
			if !expectFail && res.Exit == 0 && len(okT) >= 2 && st.Prefix == "" && (s.e.Prop == "C17" || s.e.Prop == "all") {
				n := okT[idx%len(okT)]
				dst := Step{Op: "cmd", Cmd: "diff", Patterns: []string{"./" + n}, Header: st.Header, Tags: st.Tags}
				dres := s.w.Exec(e.B.WireSim, s.w.AppDir, &world.Plan{Seed: 9, Iter: "asc", Clock: 1, Pid: 2, Host: "d"}, s.scratch, nil, s.argv(dst, s.w)...)
				e.Stats.Commands.Add("followup:diff-one", 1)
				if dres.TimedOut {
					return "watchdog: follow-up diff timed out"
				}
				if dres.Exit != 0 {
					s.violate("C17", "F6", "diff-one-package-after-gen-of-several/reports-difference", "exit 0: the file gen just wrote is what gen would write", fmt.Sprintf("exit %d: %s", dres.Exit, firstLines(s.w.Scrub(dres.Stdout+dres.Stderr), 4)), fmt.Sprintf("diff ./%s after %s", n, st))
				} else {
					e.Stats.Counts.Add("diff_one_after_gen_many_clean", 1)
				}
			}
			// ---------------- R2 / R3 follow-ups (C18)
			if !expectFail && res.Exit == 0 && (s.e.Prop == "C18" || s.e.Prop == "all") {
				if infra := s.followUps(idx, st, okT, outName); infra != "" {
					return infra
				}
			}
		case st.Cmd == "diff":
			// ---------------- F4 status of diff (C17)
			hdrBad := st.Header == "missing" || st.Header == "dir" || hdrNotGo || firedHas(fired, "read:") && st.Header == "good" && hdrFaulted(st)
			trouble := loadFails || len(badT) > 0 || st.NoGo || firedHas(fired, "getwd") || hdrBad
			differs := false
			for _, n := range okT {
				want := fr.out[n]
				if want == nil {
					continue
				}
				got, present := beforeOut[n]["wire_gen.go"]
				if !present || got == nil || !bytes.Equal(got, want) {
					differs = true
				}
			}
			readOutFault := false
			for _, f := range fired {
				if strings.HasPrefix(f, "read:") && !hdrFaulted(st) {
					readOutFault = true
				}
			}
			// a directory where the existing output should be is an unreadable existing output of the real
			// world: "absent" (1) and "cannot complete the comparison" (2) are both within the statement
			for _, n := range okT {
				if got, present := beforeOut[n]["wire_gen.go"]; present && got == nil && fr.out[n] != nil {
					readOutFault = true
				}
			}
			var want []int
			switch {
			case trouble && loadFails && len(badT) == 0 && !st.NoGo && !hdrBad && !firedHas(fired, "getwd"):
				// a package that does not load (type error, a pattern naming no directory): generation fails, so the
				// comparison cannot be completed. (An earlier version accepted 1 as well - "the weaker reading" - which
				// was weaker than the statement: its list of reasons for 2 begins with "generation fails".)
				want = []int{2}
			case trouble:
				want = []int{2}
			case readOutFault:
				want = []int{1, 2}
			case differs:
				want = []int{1}
			default:
				want = []int{0}
			}
			if !containsInt(want, res.Exit) {
				disc := "diff/"
				switch {
				case hdrBad:
					disc += "header-unusable"
				case st.NoGo:
					disc += "loader-unavailable"
				case firedHas(fired, "getwd"):
					disc += "cwd-unavailable"
				case len(badT) > 0:
					disc += "generation-fails"
				case loadFails:
					disc += "load-fails"
				case readOutFault:
					disc += "existing-output-unreadable"
				case differs:
					disc += "differs"
				default:
					disc += "equal"
				}
				disc += fmt.Sprintf("/exit=%d", res.Exit)
				s.violate("C17", "F4", disc, fmt.Sprintf("exit in %v", want), fmt.Sprintf("exit %d", res.Exit), fmt.Sprintf("%s; stderr: %s", st, firstLines(stderr, 3)))
			} else {
				e.Stats.Counts.Add(fmt.Sprintf("diff_status_%d_as_expected", res.Exit), 1)
			}
			if res.Exit == 0 && strings.TrimSpace(res.Stdout) != "" {
				s.violate("C18", "R3", "diff/exit0-with-diff-output", "empty stdout", firstLines(res.Stdout, 3), "")
			}
		case st.Cmd == "check" || st.Cmd == "show":
			s.judgeCheckShow(st, res, stderr, fr, okT, badT, typeErrT, badSet, fired)
			if (s.e.Prop == "C19" || s.e.Prop == "all") && len(T) >= 2 && len(T) <= 4 && len(fired) == 0 && !st.NoGo && len(typeErrT) == 0 && !panicked {
				if infra := s.composition(idx, st, T, res); infra != "" {
					return infra
				}
			}
		}
	}

	// C19: at every state, check (and show) next to gen on the same targets
	// the command itself may have left a file outside C18's premise behind (wire writes the UNFORMATTED source when
	// a header that is not Go makes formatting fail): from then on the loader is wedged and nothing is judged
	wedgedAfter := false
	for _, p := range s.pkgs {
		for _, data := range s.outputs(p.name) {
			if !inPremise(data) {
				wedgedAfter = true
			}
		}
	}
	if wedgedAfter && !wedged {
		e.Stats.Counts.Add("command_left_output_outside_premise", 1)
	}
	if (s.e.Prop == "C19" || s.e.Prop == "all") && judgeStatus && !wedgedAfter && (isGen || st.Cmd == "diff") && !st.NoGo && len(st.Faults) == 0 {
		if infra := s.checkNextToGen(idx, st, fr, okT, badT, typeErrT, badSet); infra != "" {
			return infra
		}
	}

	// re-synchronise the model from disk
	for _, p := range s.pkgs {
		outs := s.outputs(p.name)
		for n := range p.outMode {
			if _, ok := outs[n]; !ok {
				delete(p.outMode, n)
			}
		}
		for n, data := range outs {
			if bo, ok := beforeOut[p.name][n]; !ok || !bytes.Equal(bo, data) {
				if p.outMode[n] != "written" {
					if crashed || len(fired) > 0 {
						p.outMode[n] = "faulted-write"
					} else {
						p.outMode[n] = "written"
					}
				}
			}
		}
	}
	return ""
}

// TweakOutput rewrites a generated file: explicit, different names for all
// imports and renamed locals. The result still carries the build constraint.
func TweakOutput(cur []byte) []byte {
	lines := strings.Split(string(cur), "\n")
	inImport := false
	n := 0
	for i, l := range lines {
		t := strings.TrimSpace(l)
		switch {
		case t == "import (":
			inImport = true
		case inImport && t == ")":
			inImport = false
		case inImport && strings.HasPrefix(t, "\""):
			n++
			lines[i] = fmt.Sprintf("\tzz%d %s", n, t)
		case inImport && !strings.HasPrefix(t, "_ ") && strings.Contains(t, " \""):
			n++
			lines[i] = fmt.Sprintf("\tzz%d %s", n, t[strings.Index(t, "\""):])
		case strings.HasPrefix(t, "import \""):
			n++
			lines[i] = fmt.Sprintf("import zz%d %s", n, strings.TrimPrefix(t, "import "))
		}
	}
	out := strings.Join(lines, "\n")
	out = strings.ReplaceAll(out, "err != nil", "err9 != nil")
	out = strings.ReplaceAll(out, "cleanup()", "cleanup9()")
	return []byte(out)
}

func modeBefore(data []byte) string {
	switch {
	case data == nil:
		return ""
	case len(data) == 0:
		return "empty"
	case bytes.Contains(data, []byte("\tzz1 \"")) || bytes.Contains(data, []byte("import zz1 ")):
		return "tweaked"
	case bytes.Contains(data, []byte("\r\n")):
		return "crlf"
	case bytes.Contains(data, []byte("left-over tail of an older")):
		return "tail"
	case bytes.Contains(data, []byte("NOTE(bob)")):
		return "noted"
	case bytes.Contains(data, []byte("padding padding")):
		return "longer_stale"
	case bytes.Contains(data, []byte("InitGone")):
		return "stale"
	case bytes.Contains(data, []byte("func InitBar( {")):
		return "noncompiling"
	case bytes.Contains(data, []byte("@@@ this is not Go")):
		return "garbage"
	case bytes.Contains(data, []byte("package zzz")):
		return "otherpkg"
	case !bytes.Contains(data, []byte("package ")):
		return "torn_or_constraint_only"
	case !bytes.HasSuffix(data, []byte("}\n")) && !bytes.HasSuffix(data, []byte(")\n")):
		return "torn"
	}
	return "previous_output"
}

func loadBrokenFresh(fr *freshResult) bool {
	// the pristine run itself could not load (type error somewhere): labels cannot be compared with diagnostics
	return false
}

func hdrNote(st Step) string {
	if st.Header == "missing" || st.Header == "dir" || st.Header == "notgo" {
		return " header=" + st.Header
	}
	return ""
}

func hdrFaulted(st Step) bool {
	for _, f := range st.Faults {
		if f.Op == "read" && f.Path == "hdr.txt" {
			return true
		}
	}
	return false
}

func failClass(st Step, fired []string, dirBlock, bad, load bool) string {
	switch {
	case len(fired) > 0:
		return "fault:" + fired[0]
	case st.NoGo:
		return "loader-unavailable"
	case st.Header == "missing" || st.Header == "dir" || st.Header == "notgo":
		return "header-unusable"
	case dirBlock:
		return "output-path-is-directory"
	case bad:
		return "analysis-failure"
	case load:
		return "load-failure"
	}
	return "?"
}

func cmdClass(st Step) string {
	if st.Cmd == "default" {
		return "gen"
	}
	return st.Cmd
}

func writeFaulted(st Step, pkg string, fired []string) bool {
	for _, f := range st.Faults {
		if f.Op == "write" && strings.HasPrefix(f.Path, "/"+pkg+"/") {
			for _, x := range fired {
				if strings.HasPrefix(x, "write:") {
					return true
				}
			}
		}
	}
	return false
}

func firedHas(fired []string, prefix string) bool {
	for _, f := range fired {
		if strings.HasPrefix(f, prefix) {
			return true
		}
	}
	return false
}

func containsInt(xs []int, x int) bool {
	for _, y := range xs {
		if x == y {
			return true
		}
	}
	return false
}

func keys(m map[string]bool) []string {
	var out []string
	for k := range m {
		out = append(out, k)
	}
	sort.Strings(out)
	return out
}

func firstLines(s string, n int) string {
	lines := strings.Split(strings.TrimSpace(s), "\n")
	if len(lines) > n {
		lines = append(lines[:n], "...")
	}
	return strings.Join(lines, " | ")
}

func scheduleDigest(trace []string) string {
	h := sha256.New()
	for _, l := range trace {
		if strings.HasPrefix(l, "iter ") {
			h.Write([]byte(l))
		}
	}
	return hex.EncodeToString(h.Sum(nil)[:8])
}

// followUps: gen again changes nothing (R2); diff reports no difference (R3).
func (s *sim) followUps(idx int, st Step, okT []string, outName string) string {
	e := s.e
	before := world.Snap(s.w.AppDir)
	plan := &world.Plan{Seed: uint64(idx + 100), Iter: "desc", Clock: 2000000000, Pid: 77, Host: "again"}
	res := s.w.Exec(e.B.WireSim, cwdOf(s.w, st), plan, s.scratch, nil, s.argv(st, s.w)...)
	e.Stats.Commands.Add("followup:gen", 1)
	if res.TimedOut {
		return "watchdog: follow-up gen timed out"
	}
	delta := world.Delta(before, world.Snap(s.w.AppDir))
	if res.Exit != 0 || len(delta) > 0 {
		s.violate("C18", "R2", "gen-again/changes-something", "exit 0, no change", fmt.Sprintf("exit %d delta %v", res.Exit, delta), st.String())
	} else {
		e.Stats.Counts.Add("regen_idempotent", 1)
	}
	if st.Prefix == "" || st.Cmd == "default" {
		dst := st
		dst.Cmd = "diff"
		dst.Faults = nil
		dst.Prefix = ""
		res := s.w.Exec(e.B.WireSim, cwdOf(s.w, dst), &world.Plan{Seed: 7, Iter: "shuffle:5", Clock: 3000000000, Pid: 78, Host: "differ"}, s.scratch, nil, s.argv(dst, s.w)...)
		e.Stats.Commands.Add("followup:diff", 1)
		if res.TimedOut {
			return "watchdog: follow-up diff timed out"
		}
		if res.Exit != 0 || strings.TrimSpace(res.Stdout) != "" {
			s.violate("C18", "R3", "diff-after-gen/reports-difference", "exit 0, empty stdout", fmt.Sprintf("exit %d stdout %q", res.Exit, firstLines(s.w.Scrub(res.Stdout), 4)), st.String())
		} else {
			e.Stats.Counts.Add("diff_after_gen_clean", 1)
		}
	}
	return ""
}

// goShim writes (once per scratch directory) a `go` executable that stands in
// front of the real tool: every `go list` fails the way VERIF_GO_FAULT says -
// exits 1 without output, is killed half-way through its output, or is killed
// after the first complete package record - everything else is passed through.
// The loader is on the trusted side of the seam, but it can FAIL; this is the
// subprocess counterpart of the file-I/O faults.
func goShim(scratch string) (string, error) {
	dir := filepath.Join(scratch, "goshim")
	path := filepath.Join(dir, "go")
	if _, err := os.Stat(path); err == nil {
		return dir, nil
	}
	real, err := exec.LookPath("go")
	if err != nil {
		return "", err
	}
	if err := os.MkdirAll(dir, 0777); err != nil {
		return "", err
	}
	script := "#!/bin/bash\nreal=" + strconv.Quote(real) + `
if [ "$1" != "list" ]; then exec "$real" "$@"; fi
case "$VERIF_GO_FAULT" in
  list-exit1)
    echo "go: simulated failure of go list" >&2; exit 1;;
  list-killed-midway)
    out=$("$real" "$@" 2>/dev/null); printf '%s' "${out:0:$(( ${#out} / 2 ))}"; kill -9 $$;;
  list-partial)
    "$real" "$@" 2>/dev/null | awk '{print} /^}$/ {exit}'; kill -9 $$;;
esac
exec "$real" "$@"
`
	tmp := path + fmt.Sprintf(".tmp%d", os.Getpid())
	if err := os.WriteFile(tmp, []byte(script), 0777); err != nil {
		return "", err
	}
	if err := os.Rename(tmp, path); err != nil {
		return "", err
	}
	return dir, nil
}
