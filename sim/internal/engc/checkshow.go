package engc

import (
	"fmt"
	"sort"
	"strings"

	"verif/sim/internal/progen"
	"verif/sim/internal/world"
)

func slug(s string) string {
	s = strings.ReplaceAll(s, " ", "-")
	s = strings.ReplaceAll(s, "'", "")
	return s
}

// judgeCheckShow evaluates C19's clauses for one check/show run.
//
// A1: check (and show, which shares Load) exits 0 exactly when every targeted
// package would generate and every top-level set in them is well-formed; its
// diagnostics name at least the error classes gen names.
// A2 (differential part): show's stdout does not depend on the iteration
// schedule nor on left-over outputs: it equals show on a pristine tree.
func (s *sim) judgeCheckShow(st Step, res *world.Result, stderr string, fr *freshResult, okT, badT, typeErrT []string, badSet bool, fired []string) {
	e := s.e
	envTrouble := st.NoGo || firedHas(fired, "getwd")
	expectFail := envTrouble || len(badT) > 0 || len(typeErrT) > 0 || badSet
	switch {
	case expectFail && res.Exit == 0:
		if envTrouble {
			if !st.NoGo && len(badT) == 0 && len(typeErrT) == 0 && !badSet {
				// the injected getwd failure was overcome (a fallback to $PWD, say) and the answer is the truthful one
				e.Stats.Counts.Add("fault_tolerated_by_the_tool_success_verified", 1)
				break
			}
			s.violate("C19", "A1", st.Cmd+"/exit0-although-it-could-not-run", "exit != 0", "exit 0", st.String())
			break
		}
		reported := false
		for _, n := range badT {
			p := s.pkg(n)
			s.violate("C19", "A1", st.Cmd+"/misses/"+p.variant, "exit != 0 (gen rejects this package: "+Info(p.variant).Stem+")", "exit 0", fmt.Sprintf("package %s; %s", n, st))
			reported = true
		}
		if !reported && len(typeErrT) > 0 {
			s.violate("C19", "A1", st.Cmd+"/misses/typeerr", "exit != 0", "exit 0", st.String())
			reported = true
		}
		if !reported && badSet {
			s.violate("C19", "A1", st.Cmd+"/misses/malformed-unused-set", "exit != 0 (a top-level provider set is malformed)", "exit 0", st.String())
		}
	case !expectFail && res.Exit != 0:
		s.violate("C19", "A1", st.Cmd+"/rejects-what-gen-accepts", "exit 0", fmt.Sprintf("exit %d", res.Exit), firstLines(stderr, 4))
	default:
		e.Stats.Counts.Add(fmt.Sprintf("%s_status_agrees_exit%d", st.Cmd, minInt(res.Exit, 1)), 1)
	}
	// error classes
	if !envTrouble && len(typeErrT) == 0 && res.Exit != 0 {
		for _, n := range badT {
			for _, extra := range Info(s.pkg(n).variant).Stems {
				// a further, independent error class of the same package: check must name it whenever gen does
				if strings.Contains(fr.stderr, extra) && !strings.Contains(stderr, extra) {
					s.violate("C19", "A1", st.Cmd+"/missing-class/"+slug(extra), "diagnostic class \""+extra+"\" (gen reports it)", "not reported", fmt.Sprintf("package %s; %s", n, st))
				}
			}
			stem := Info(s.pkg(n).variant).Stem
			if strings.Contains(fr.stderr, stem) && !strings.Contains(stderr, stem) {
				if Info(s.pkg(n).variant).CheckGap && len(badT) > 1 {
					// reported through A1 when it is the only reason; here another package made check fail
					s.violate("C19", "A1", st.Cmd+"/misses/"+s.pkg(n).variant, "diagnostic class \""+stem+"\" (gen reports it)", "not reported", fmt.Sprintf("package %s; %s", n, st))
					continue
				}
				s.violate("C19", "A1", st.Cmd+"/missing-class/"+slug(stem), "diagnostic class \""+stem+"\" (gen reports it)", "not reported", fmt.Sprintf("package %s; %s", n, st))
			}
		}
	}
	if st.Cmd == "show" && !envTrouble && len(typeErrT) == 0 {
		sf := s.fresh("show", st)
		if sf.infra != "" {
			return
		}
		got := s.w.Scrub(res.Stdout)
		if got != sf.stdout {
			s.violate("C19", "A2", "show/output-depends-on-schedule-or-leftovers", firstLines(sf.stdout, 8), firstLines(got, 8), fmt.Sprintf("%s vs. the same command on a pristine tree with ascending iteration", st))
		} else {
			e.Stats.Counts.Add("show_equals_pristine", 1)
		}
	}
}

func minInt(a, b int) int {
	if a < b {
		return a
	}
	return b
}

// checkNextToGen runs check on the same targets right after a gen/diff step.
func (s *sim) checkNextToGen(idx int, st Step, fr *freshResult, okT, badT, typeErrT []string, badSet bool) string {
	cst := Step{Op: "cmd", Cmd: "check", Cwd: st.Cwd, Patterns: st.Patterns, Tags: st.Tags, Iter: fmt.Sprintf("shuffle:%d", idx*7+3)}
	before := world.Snap(s.w.AppDir)
	plan := &world.Plan{Seed: uint64(idx + 500), Iter: cst.Iter, Clock: 1500000000, Pid: 99, Host: "checker"}
	res := s.w.Exec(s.e.B.WireSim, cwdOf(s.w, cst), plan, s.scratch, nil, s.argv(cst, s.w)...)
	s.e.Stats.Commands.Add("nextto:check", 1)
	if res.TimedOut {
		return "watchdog: check timed out"
	}
	s.e.Stats.Schedules.Add(scheduleDigest(res.Trace))
	stderr := s.w.Scrub(res.Stderr)
	s.logf("  [check next to %s] exit=%d stderr=%q", st.Cmd, res.Exit, firstLines(stderr, 4))
	if d := world.Delta(before, world.Snap(s.w.AppDir)); len(d) > 0 {
		s.violate("C17", "F1", "check/footprint", "no change", fmt.Sprint(d), "check modified the tree")
	}
	if strings.Contains(res.Stderr, "panic: ") {
		s.e.Stats.Counts.Add("panicked_not_judged", 1)
		return ""
	}
	s.judgeCheckShow(cst, res, stderr, fr, okT, badT, typeErrT, badSet, nil)
	return ""
}

// composition: the statement's condition for check is a conjunction over the named
// packages, and show lists the sets and injectors of the named packages - so one
// invocation over several packages must agree with the invocations over each of them
// alone, ON THE SAME TREE. No label is involved; what it exposes is state that one
// package leaves behind for the next inside one Load (a shared object cache, memo
// tables, visited sets).
func (s *sim) composition(idx int, st Step, T []string, res *world.Result) string {
	anyFail := false
	union := map[string]progen.SetModel{}
	var unionInj []string
	allOK := true
	for _, n := range T {
		one := Step{Op: "cmd", Cmd: st.Cmd, Patterns: []string{"./" + n}, Tags: st.Tags}
		r := s.w.Exec(s.e.B.WireSim, s.w.AppDir, &world.Plan{Seed: uint64(idx + 900), Iter: "asc", Clock: 1600000000, Pid: 55, Host: "one"}, s.scratch, nil, s.argv(one, s.w)...)
		s.e.Stats.Commands.Add("alone:"+st.Cmd, 1)
		if r.TimedOut {
			return "watchdog: " + st.Cmd + " of one package timed out"
		}
		if strings.Contains(r.Stderr, "panic: ") {
			return ""
		}
		if r.Exit != 0 {
			anyFail = true
			allOK = false
		}
		if st.Cmd == "show" && r.Exit == 0 {
			sets, inj := progen.ParseShow(r.Stdout)
			for k, v := range sets {
				union[k] = v
			}
			unionInj = append(unionInj, inj...)
		}
	}
	if anyFail != (res.Exit != 0) {
		s.violate("C19", "A3", st.Cmd+"/several-packages-disagree-with-each-alone", fmt.Sprintf("fails exactly when it fails for one of %v alone (that is: %v)", T, anyFail), fmt.Sprintf("exit %d", res.Exit), st.String())
		return ""
	}
	s.e.Stats.Counts.Add("composition_"+st.Cmd+"_status_agrees", 1)
	if st.Cmd == "show" && allOK && res.Exit == 0 {
		got, gotInj := progen.ParseShow(res.Stdout)
		sort.Strings(unionInj)
		var diffs []string
		for k, w := range union {
			g, ok := got[k]
			switch {
			case !ok:
				diffs = append(diffs, "missing "+k)
			case fmt.Sprint(nonNil(w.Imports)) != fmt.Sprint(nonNil(g.Imports)) || !sameGroups(w.Groups, g.Groups):
				diffs = append(diffs, "differs "+k)
			}
		}
		for k := range got {
			if _, ok := union[k]; !ok {
				diffs = append(diffs, "extra "+k)
			}
		}
		if fmt.Sprint(nonNil(unionInj)) != fmt.Sprint(nonNil(gotInj)) {
			diffs = append(diffs, fmt.Sprintf("injectors %v vs %v", gotInj, unionInj))
		}
		sort.Strings(diffs)
		if len(diffs) > 0 {
			s.violate("C19", "A3", "show/several-packages-differ-from-the-union-of-each-alone", "the sets and injectors shown for each package alone", strings.Join(diffs, "; "), st.String())
		} else {
			s.e.Stats.Counts.Add("composition_show_structure_agrees", 1)
		}
	}
	return ""
}
