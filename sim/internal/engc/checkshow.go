package engc

import (
	"fmt"
	"strings"

	"verif/sim/internal/world"
)

func slug(s string) string {
	s = strings.ReplaceAll(s, " ", "-")
	s = strings.ReplaceAll(s, "'", "")
	return s
}

// judgeCheckShow evaluates C19's clauses for one check/show run.
//
// A1: check (and show, which shares Load) exits 0 exactly when every targeted
// package would generate and every top-level set in them is well-formed; its
// diagnostics name at least the error classes gen names.
// A2 (differential part): show's stdout does not depend on the iteration
// schedule nor on left-over outputs: it equals show on a pristine tree.
func (s *sim) judgeCheckShow(st Step, res *world.Result, stderr string, fr *freshResult, okT, badT, typeErrT []string, badSet bool, fired []string) {
	e := s.e
	envTrouble := st.NoGo || firedHas(fired, "getwd")
	expectFail := envTrouble || len(badT) > 0 || len(typeErrT) > 0 || badSet
	switch {
	case expectFail && res.Exit == 0:
		if envTrouble {
			s.violate("C19", "A1", st.Cmd+"/exit0-although-it-could-not-run", "exit != 0", "exit 0", st.String())
			break
		}
		reported := false
		for _, n := range badT {
			p := s.pkg(n)
			s.violate("C19", "A1", st.Cmd+"/misses/"+p.variant, "exit != 0 (gen rejects this package: "+Info(p.variant).Stem+")", "exit 0", fmt.Sprintf("package %s; %s", n, st))
			reported = true
		}
		if !reported && len(typeErrT) > 0 {
			s.violate("C19", "A1", st.Cmd+"/misses/typeerr", "exit != 0", "exit 0", st.String())
			reported = true
		}
		if !reported && badSet {
			s.violate("C19", "A1", st.Cmd+"/misses/malformed-unused-set", "exit != 0 (a top-level provider set is malformed)", "exit 0", st.String())
		}
	case !expectFail && res.Exit != 0:
		s.violate("C19", "A1", st.Cmd+"/rejects-what-gen-accepts", "exit 0", fmt.Sprintf("exit %d", res.Exit), firstLines(stderr, 4))
	default:
		e.Stats.Counts.Add(fmt.Sprintf("%s_status_agrees_exit%d", st.Cmd, minInt(res.Exit, 1)), 1)
	}
	// error classes
	if !envTrouble && len(typeErrT) == 0 && res.Exit != 0 {
		for _, n := range badT {
			stem := Info(s.pkg(n).variant).Stem
			if strings.Contains(fr.stderr, stem) && !strings.Contains(stderr, stem) {
				if Info(s.pkg(n).variant).CheckGap && len(badT) > 1 {
					// reported through A1 when it is the only reason; here another package made check fail
					s.violate("C19", "A1", st.Cmd+"/misses/"+s.pkg(n).variant, "diagnostic class \""+stem+"\" (gen reports it)", "not reported", fmt.Sprintf("package %s; %s", n, st))
					continue
				}
				s.violate("C19", "A1", st.Cmd+"/missing-class/"+slug(stem), "diagnostic class \""+stem+"\" (gen reports it)", "not reported", fmt.Sprintf("package %s; %s", n, st))
			}
		}
	}
	if st.Cmd == "show" && !envTrouble && len(typeErrT) == 0 {
		sf := s.fresh("show", st)
		if sf.infra != "" {
			return
		}
		got := s.w.Scrub(res.Stdout)
		if got != sf.stdout {
			s.violate("C19", "A2", "show/output-depends-on-schedule-or-leftovers", firstLines(sf.stdout, 8), firstLines(got, 8), fmt.Sprintf("%s vs. the same command on a pristine tree with ascending iteration", st))
		} else {
			e.Stats.Counts.Add("show_equals_pristine", 1)
		}
	}
}

func minInt(a, b int) int {
	if a < b {
		return a
	}
	return b
}

// checkNextToGen runs check on the same targets right after a gen/diff step.
func (s *sim) checkNextToGen(idx int, st Step, fr *freshResult, okT, badT, typeErrT []string, badSet bool) string {
	cst := Step{Op: "cmd", Cmd: "check", Cwd: st.Cwd, Patterns: st.Patterns, Tags: st.Tags, Iter: fmt.Sprintf("shuffle:%d", idx*7+3)}
	before := world.Snap(s.w.AppDir)
	plan := &world.Plan{Seed: uint64(idx + 500), Iter: cst.Iter, Clock: 1500000000, Pid: 99, Host: "checker"}
	res := s.w.Exec(s.e.B.WireSim, cwdOf(s.w, cst), plan, s.scratch, nil, s.argv(cst, s.w)...)
	s.e.Stats.Commands.Add("nextto:check", 1)
	if res.TimedOut {
		return "watchdog: check timed out"
	}
	s.e.Stats.Schedules.Add(scheduleDigest(res.Trace))
	stderr := s.w.Scrub(res.Stderr)
	s.logf("  [check next to %s] exit=%d stderr=%q", st.Cmd, res.Exit, firstLines(stderr, 4))
	if d := world.Delta(before, world.Snap(s.w.AppDir)); len(d) > 0 {
		s.violate("C17", "F1", "check/footprint", "no change", fmt.Sprint(d), "check modified the tree")
	}
	if strings.Contains(res.Stderr, "panic: ") {
		s.e.Stats.Counts.Add("panicked_not_judged", 1)
		return ""
	}
	s.judgeCheckShow(cst, res, stderr, fr, okT, badT, typeErrT, badSet, nil)
	return ""
}
