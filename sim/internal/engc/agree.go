package engc

import (
	"fmt"
	"math/rand/v2"
	"path/filepath"
	"strings"

	"verif/sim/internal/common"
	"verif/sim/internal/progen"
	"verif/sim/internal/world"
)

// AgreeCase is one generated module, possibly with a seeded defect, on which
// `wire check` must agree with `wire gen` (C19 A1, differential: no labels
// except for the malformed-unused-set mutation).
type AgreeCase struct {
	Module   *progen.Module `json:"module"`
	Mutation string         `json:"mutation"` // "" = accepted program
	Iter     string         `json:"iter"`
	Agree    bool           `json:"agree"`
}

var mutationKinds = []string{"", "missing", "multi", "unused", "sigerr", "sigcleanup", "badset"}

// GenAgreeCase draws a module and a mutation.
func GenAgreeCase(r *rand.Rand) *AgreeCase {
	k := progen.RandomKnobs(r, false)
	k.NTypes = 6 + r.IntN(16)
	k.NPkgs = 1 + r.IntN(4)
	k.ErrPct, k.CleanupPct = 50, 50
	m := progen.Generate(r, k)
	c := &AgreeCase{Module: m, Agree: true, Iter: fmt.Sprintf("shuffle:%d", r.IntN(100000))}
	want := mutationKinds[r.IntN(len(mutationKinds))]
	if want != "" {
		c.Mutation = m.Mutate(r, want)
	}
	return c
}

// RunAgreeCase runs gen and check on the same pristine tree.
func (e *Engine) RunAgreeCase(c *AgreeCase, dir string) *Outcome {
	out := &Outcome{}
	app, ext := c.Module.Files(false)
	w, err := world.New(filepath.Join(dir, "w"), world.LayoutMod, "", e.B.MarkerGo, app, ext...)
	if err != nil {
		out.Infra = err.Error()
		return out
	}
	// check first: gen would leave outputs behind (they must not matter, but keep the two runs symmetric)
	chk := w.Exec(e.B.WireSim, w.AppDir, &world.Plan{Seed: 2, Iter: c.Iter, Clock: 1, Pid: 1, Host: "h"}, dir, nil, "check", "./...")
	gen := w.Exec(e.B.WireSim, w.AppDir, &world.Plan{Seed: 1, Iter: "asc", Clock: 1, Pid: 1, Host: "h"}, dir, nil, "gen", "./...")
	e.Stats.Commands.Add("agree:check", 1)
	e.Stats.Commands.Add("agree:gen", 1)
	out.Steps = 2
	if chk.TimedOut || gen.TimedOut {
		out.Infra = "watchdog: check/gen timed out"
		return out
	}
	gerr, cerr := w.Scrub(gen.Stderr), w.Scrub(chk.Stderr)
	out.Log = append(out.Log, fmt.Sprintf("mutation=%q gen exit=%d check exit=%d", c.Mutation, gen.Exit, chk.Exit))
	if strings.Contains(gen.Stderr, "panic: ") || strings.Contains(chk.Stderr, "panic: ") {
		e.Stats.Counts.Add("panicked_not_judged", 1)
		return out
	}
	e.Stats.States.Add(fmt.Sprintf("agree:%s:gen%d:check%d:%d", c.Mutation, minInt(gen.Exit, 1), minInt(chk.Exit, 1), len(c.Module.Injectors)))
	wantCheckFail := gen.Exit != 0 || c.Mutation == "badset" && e.DuplicatesRejected(dir)
	where := fmt.Sprintf("generated module, mutation %q, check under %s", c.Mutation, c.Iter)
	switch {
	case wantCheckFail && chk.Exit == 0 && gen.Exit != 0:
		cls := "other"
		for _, st := range DiagStems {
			if strings.Contains(gerr, st) {
				cls = slug(st)
				break
			}
		}
		out.Verdicts = append(out.Verdicts, common.Verdict{Property: "C19", Clause: "A1", Disc: "check/accepts-what-gen-rejects/" + cls, Expected: "exit != 0 (gen: " + firstLines(gerr, 2) + ")", Observed: "exit 0", Detail: where})
	case wantCheckFail && chk.Exit == 0:
		out.Verdicts = append(out.Verdicts, common.Verdict{Property: "C19", Clause: "A1", Disc: "check/misses/malformed-unused-set", Expected: "exit != 0 (a top-level provider set is malformed)", Observed: "exit 0", Detail: where})
	case !wantCheckFail && chk.Exit != 0:
		out.Verdicts = append(out.Verdicts, common.Verdict{Property: "C19", Clause: "A1", Disc: "check/rejects-what-gen-accepts", Expected: "exit 0", Observed: fmt.Sprintf("exit %d: %s", chk.Exit, firstLines(cerr, 3)), Detail: where})
	default:
		e.Stats.Counts.Add("agree_"+orAccepted(c.Mutation)+"_status_agrees", 1)
		if gen.Exit != 0 {
			for _, st := range DiagStems {
				if strings.Contains(gerr, st) && !strings.Contains(cerr, st) {
					out.Verdicts = append(out.Verdicts, common.Verdict{Property: "C19", Clause: "A1", Disc: "check/missing-class/" + slug(st), Expected: "diagnostic class \"" + st + "\" (gen reports it)", Observed: "not reported", Detail: where})
				}
			}
		}
	}
	return out
}

func orAccepted(s string) string {
	if s == "" {
		return "accepted"
	}
	return s
}
