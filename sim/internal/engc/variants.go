package engc

import (
	"fmt"
	"strings"

	"verif/sim/internal/world"
)

// Variant classes.
const (
	ClassOK      = "ok"      // has injectors, wire must accept
	ClassBad     = "bad"     // has injectors, wire must reject (analysis failure)
	ClassNone    = "none"    // no injectors: nothing to generate
	ClassTypeErr = "typeerr" // does not type-check: load failure
)

// VariantInfo describes one template variant.
type VariantInfo struct {
	Name     string
	Class    string
	Stem     string // diagnostic stem wire prints for a bad variant
	Stems    []string // further error classes gen names for this variant (independent errors of one injector)
	BadSet   bool   // has a malformed top-level set that no injector uses (gen ok, check must fail)
	CheckGap bool   // rejected only by gen's post-solve checks (error/cleanup/value visibility)
	UsesLib  bool
}

// Variants lists every template variant of a non-lib package.
var Variants = []VariantInfo{
	{Name: "ok", Class: ClassOK},
	{Name: "ok_rich", Class: ClassOK, UsesLib: true},
	{Name: "ok_multi", Class: ClassOK, UsesLib: true},
	{Name: "ok_badset", Class: ClassOK, BadSet: true},
	// good injector + an unused top-level set that merely COMBINES two sets, each fine alone, cyclic together
	{Name: "ok_cycleset", Class: ClassOK, BadSet: true},
	{Name: "noinj", Class: ClassNone},
	// a directory that holds only _test.go files: go list reports it as a package without Go files
	{Name: "testonly", Class: ClassNone},
	// accepted programs in corners of the language (found by bug-hunting sub-agents, DESIGN section 6):
	{Name: "ok_unsafeptr", Class: ClassOK}, // an injector whose result is unsafe.Pointer, with a fallible provider
	{Name: "ok_generic2", Class: ClassOK},  // a copied declaration instantiating a generic type with two type arguments
	{Name: "ok_setalias", Class: ClassOK},  // type Set = wire.ProviderSet declared next to a well-formed set variable
	{Name: "ok_structconv", Class: ClassOK}, // wire.Struct((*Bar)(nil), "*"): the pointer spelled as a conversion, as Bind and FieldsOf accept it
	{Name: "bad_missing", Class: ClassBad, Stem: "no provider found"},
	{Name: "bad_unused", Class: ClassBad, Stem: "unused provider"},
	{Name: "bad_multi", Class: ClassBad, Stem: "multiple bindings"},
	{Name: "bad_cycle", Class: ClassBad, Stem: "cycle for"},
	{Name: "bad_invalid_injector", Class: ClassBad, Stem: "injectors must consist of only the wire.Build call"},
	{Name: "bad_sig_err", Class: ClassBad, Stem: "returns error but injection not allowed to fail", CheckGap: true},
	{Name: "bad_sig_cleanup", Class: ClassBad, Stem: "returns cleanup but injection does not return cleanup function", CheckGap: true},
	{Name: "bad_value_unexported", Class: ClassBad, Stem: "can't be used", CheckGap: true, UsesLib: true},
	{Name: "mixed", Class: ClassBad, Stem: "no provider found"},
	// uses the library's malformed set (only drawn while lib is lib_badset): the diagnostic is positioned in lib's
	// file, so two such packages in one invocation fail with byte-identical errors
	{Name: "bad_libset", Class: ClassBad, Stem: "multiple bindings", UsesLib: true},
	// two set variables with ONE multi-value initialiser; the injector uses the second
	{Name: "bad_multival", Class: ClassBad, Stem: "is not a provider or a provider set"},
	// an injector PARAMETER of provider-set type, named like a package-level set variable
	{Name: "bad_paramset", Class: ClassBad, Stem: "is not a provider or a provider set"},
	// ONE injector hitting two independent errors: an ill-formed set variable it includes and a provider with an illegal signature
	{Name: "bad_two_errors", Class: ClassBad, Stem: "multiple bindings", Stems: []string{"wrong signature for provider"}},
	// wire.InterfaceValue(new(<empty interface>), nil): there is no value to provide
	{Name: "bad_nilvalue", Class: ClassBad, Stem: "untyped nil"},
	{Name: "typeerr", Class: ClassTypeErr},
}

// LibVariants lists the variants of the lib package.
var LibVariants = []VariantInfo{
	{Name: "lib_ok", Class: ClassNone},
	{Name: "lib_badset", Class: ClassNone, BadSet: true},
	// lib with an injector of its own that uses HiddenSet (legal inside lib): in one check/show invocation
	// lib is analysed BEFORE the packages that import it, with one object cache shared by all of them
	{Name: "lib_inj", Class: ClassOK},
}

// Info looks a variant up by name.
func Info(name string) VariantInfo {
	for _, v := range Variants {
		if v.Name == name {
			return v
		}
	}
	for _, v := range LibVariants {
		if v.Name == name {
			return v
		}
	}
	panic("unknown variant " + name)
}

// DiagStems are the stable message stems of wire's error classes.
var DiagStems = []string{
	"no provider found",
	"multiple bindings",
	"unused provider",
	"cycle for",
	"injectors must consist of only the wire.Build call",
	"returns error but injection not allowed to fail",
	"returns cleanup but injection does not return cleanup function",
	"can't be used",
}

// shape renders the result list and the return statement of an injector whose
// value result has type typ (zero expression zero). Which of the optional
// cleanup / error results are declared varies with n, except those forbidden.
func shape(typ, zero string, n int, forbidCleanup, forbidErr bool) (results, ret string) {
	c := !forbidCleanup && n%2 == 1
	e := !forbidErr && (n/2)%2 == 1
	switch {
	case c && e:
		return "(" + typ + ", func(), error)", "return " + zero + ", nil, nil"
	case c:
		return "(" + typ + ", func())", "return " + zero + ", nil"
	case e:
		return "(" + typ + ", error)", "return " + zero + ", nil"
	}
	return typ, "return " + zero
}

const injectHeader = "//go:build wireinject\n// +build wireinject\n\n"

// Sources returns the files of package pkg in variant v with tag n.
func Sources(pkg, v string, n int) []world.File {
	// the declared result list of the injector varies with n (declared-but-unneeded
	// cleanup / error results are legal); variants that are about a MISSING result keep it missing
	res, ret := shape("Bar", "Bar{}", n, false, false)
	switch v {
	case "bad_sig_err":
		res, ret = shape("Bar", "Bar{}", n, false, true)
	case "bad_sig_cleanup":
		res, ret = shape("Bar", "Bar{}", n, true, false)
	}
	f := func(name, body string) world.File {
		body = strings.ReplaceAll(body, "{P}", pkg)
		body = strings.ReplaceAll(body, "{N}", fmt.Sprint(n))
		body = strings.ReplaceAll(body, "{RES}", res)
		body = strings.ReplaceAll(body, "{RET}", ret)
		return world.File{Path: pkg + "/" + name, Data: []byte(body)}
	}
	basicModel := `package {P}

// Foo is a leaf.
type Foo struct{ N int }

// Bar needs a Foo.
type Bar struct{ F Foo }

// Baz needs a Bar.
type Baz struct{ B Bar }

func ProvideFoo{N}() Foo { return Foo{N: {N}} }

func ProvideBar(f Foo) Bar { return Bar{F: f} }

func ProvideBaz(b Bar) Baz { return Baz{B: b} }
`
	switch v {
	case "ok":
		return []world.File{
			f("model.go", basicModel),
			f("wire.go", injectHeader+`package {P}

import "github.com/google/wire"

func InitBar() {RES} {
	wire.Build(ProvideFoo{N}, ProvideBar)
	{RET}
}
`),
		}
	case "ok_cycleset", "probe_cycleset_used":
		files := []world.File{
			f("model.go", basicModel+`
// Engine and Gearbox need each other.
type Engine struct{ G *Gearbox }

type Gearbox struct{ E *Engine }

func ProvideEngine(g *Gearbox) *Engine { return &Engine{G: g} }

func ProvideGearbox(e *Engine) *Gearbox { return &Gearbox{E: e} }
`),
			f("sets.go", `package {P}

import "github.com/google/wire"

// EngineSet needs a *Gearbox from outside.
var EngineSet = wire.NewSet(ProvideEngine)

// GearboxSet needs an *Engine from outside.
var GearboxSet = wire.NewSet(ProvideGearbox)

// Drivetrain adds nothing of its own: it combines two sets that are fine alone and cyclic together.
var Drivetrain = wire.NewSet(EngineSet, GearboxSet)
`),
		}
		inj := `func InitBar() {RES} {
	wire.Build(ProvideFoo{N}, ProvideBar)
	{RET}
}
`
		if v == "probe_cycleset_used" {
			inj = `func InitEngine() *Engine {
	wire.Build(Drivetrain)
	return nil
}
`
		}
		return append(files, f("wire.go", injectHeader+`package {P}

import "github.com/google/wire"

`+inj))
	case "ok_badset":
		return []world.File{
			f("model.go", basicModel+`
func ProvideFooB() Foo { return Foo{N: -1} }
`),
			f("sets.go", `package {P}

import "github.com/google/wire"

// BadSet provides Foo twice; no injector uses it.
var BadSet = wire.NewSet(ProvideFoo{N}, ProvideFooB)
`),
			f("wire.go", injectHeader+`package {P}

import "github.com/google/wire"

func InitBar() {RES} {
	wire.Build(ProvideFoo{N}, ProvideBar)
	{RET}
}
`),
		}
	case "ok_rich":
		return []world.File{
			f("model.go", `package {P}

import (
	"errors"

	"example.com/lib"
	"github.com/google/wire"
)

type Iface interface{ M() int }

type Impl struct{ D lib.Dep }

func (i *Impl) M() int { return {N} }

type Cfg struct {
	Name string
	Port int
}

type Port int

type App struct {
	I    Iface
	Name string
	P    Port
}

func ProvideImpl{N}(d lib.Dep) (*Impl, func(), error) {
	if d.N < 0 {
		return nil, nil, errors.New("negative")
	}
	return &Impl{D: d}, func() {}, nil
}

func ProvideApp(i Iface, name string, p Port) *App { return &App{I: i, Name: name, P: p} }

// RichSet is a well-formed top-level set.
var RichSet = wire.NewSet(lib.Set, ProvideImpl{N}, wire.Bind(new(Iface), new(*Impl)))
`),
			f("wire.go", injectHeader+`package {P}

import (
	_ "embed"
	_ "unicode/utf8"

	"example.com/lib"
	"github.com/google/wire"
)

// InitApp builds the whole application.
func InitApp() (*App, func(), error) {
	wire.Build(RichSet, wire.Value(Cfg{Name: "app{N}", Port: {N}}), wire.FieldsOf(new(Cfg), "Name"), wire.Value(Port({N})), ProvideApp)
	return nil, nil, nil
}

func InitImpl() (*Impl, func(), error) {
	wire.Build(lib.Set, ProvideImpl{N})
	return nil, nil, nil
}

// helper{N} is copied into the generated file.
func helper{N}() int { return {N} }
`),
		}
	case "ok_multi":
		return []world.File{
			// three Go files in the wireinject build (not a power of two), the second injector file sorting AFTER wire_gen.go
			f("model.go", `package {P}

import "example.com/lib"

type Qux struct {
	B Baz
	D lib.Dep
}
`+strings.TrimPrefix(basicModel, "package {P}\n")),
			f("wire_a.go", injectHeader+`package {P}

import "github.com/google/wire"

func InitBar{N}() Bar {
	wire.Build(ProvideFoo{N}, ProvideBar)
	return Bar{}
}

func InitBaz(f Foo) Baz {
	panic(wire.Build(ProvideBar, ProvideBaz))
}
`),
			f("wire_z.go", injectHeader+`package {P}

import (
	"example.com/lib"
	"github.com/google/wire"
)

func InitQux() *Qux {
	wire.Build(ProvideFoo{N}, ProvideBar, ProvideBaz, lib.Set, wire.Struct(new(Qux), "*"))
	return nil
}
`),
		}
	case "testonly":
		return []world.File{
			f("only_test.go", "package {P}\n\nimport \"testing\"\n\nfunc TestNothing{N}(t *testing.T) {}\n"),
		}
	case "ok_unsafeptr":
		return []world.File{
			f("model.go", basicModel),
			f("ptr.go", `package {P}

import "unsafe"

func ProvidePtr{N}(b Bar) (unsafe.Pointer, error) { return unsafe.Pointer(&b), nil }
`),
			f("wire.go", injectHeader+`package {P}

import (
	"unsafe"

	"github.com/google/wire"
)

func InitBar() {RES} {
	wire.Build(ProvideFoo{N}, ProvideBar)
	{RET}
}

func InitPtr() (unsafe.Pointer, error) {
	wire.Build(ProvideFoo{N}, ProvideBar, ProvidePtr{N})
	return nil, nil
}
`),
		}
	case "ok_generic2":
		return []world.File{
			f("model.go", basicModel+`
// Pair is generic in two type parameters.
type Pair[K comparable, V any] struct {
	Key K
	Val V
}
`),
			f("wire.go", injectHeader+`package {P}

import "github.com/google/wire"

func InitBar() {RES} {
	wire.Build(ProvideFoo{N}, ProvideBar)
	{RET}
}

// defaultPair is an ordinary declaration of the injector file: wire copies it into the output.
var defaultPair = Pair[string, int]{Key: "k{N}", Val: {N}}
`),
		}
	case "ok_structconv":
		return []world.File{
			f("model.go", basicModel),
			f("wire.go", injectHeader+`package {P}

import "github.com/google/wire"

func InitBar() {RES} {
	wire.Build(ProvideFoo{N}, wire.Struct((*Bar)(nil), "*"))
	{RET}
}
`),
		}
	case "ok_setalias":
		return []world.File{
			f("model.go", basicModel),
			f("sets.go", `package {P}

import "github.com/google/wire"

// Set is another name for the type of provider sets; it is a type, not a provider set.
type Set = wire.ProviderSet

// FooSet is well-formed.
var FooSet Set = wire.NewSet(ProvideFoo{N})
`),
			f("wire.go", injectHeader+`package {P}

import "github.com/google/wire"

func InitBar() {RES} {
	wire.Build(FooSet, ProvideBar)
	{RET}
}
`),
		}
	case "noinj":
		return []world.File{
			f("model.go", basicModel),
			f("driver.go", "package {P}\n\nimport _ \"container/heap\" // blank import in a package without injectors\n"),
		}
	case "bad_missing":
		return []world.File{
			f("model.go", basicModel),
			f("wire.go", injectHeader+`package {P}

import "github.com/google/wire"

func InitBar() {RES} {
	wire.Build(ProvideBar)
	{RET}
}
`),
		}
	case "bad_unused":
		return []world.File{
			f("model.go", basicModel),
			f("wire.go", injectHeader+`package {P}

import "github.com/google/wire"

func InitBar() {RES} {
	wire.Build(ProvideFoo{N}, ProvideBar, ProvideBaz)
	{RET}
}
`),
		}
	case "bad_multi":
		return []world.File{
			f("model.go", basicModel+`
func ProvideFooB() Foo { return Foo{N: -1} }
`),
			f("wire.go", injectHeader+`package {P}

import "github.com/google/wire"

func InitBar() {RES} {
	wire.Build(ProvideFoo{N}, ProvideFooB, ProvideBar)
	{RET}
}
`),
		}
	case "bad_cycle":
		return []world.File{
			f("model.go", `package {P}

type Foo struct{ N int }

type Bar struct{ F Foo }

func ProvideFoo{N}(b Bar) Foo { return Foo{N: {N}} }

func ProvideBar(f Foo) Bar { return Bar{F: f} }
`),
			f("wire.go", injectHeader+`package {P}

import "github.com/google/wire"

func InitBar() {RES} {
	wire.Build(ProvideFoo{N}, ProvideBar)
	{RET}
}
`),
		}
	case "bad_invalid_injector":
		return []world.File{
			f("model.go", basicModel),
			f("wire.go", injectHeader+`package {P}

import "github.com/google/wire"

func InitBar() {RES} {
	x := {N}
	_ = x
	wire.Build(ProvideFoo{N}, ProvideBar)
	{RET}
}
`),
		}
	case "bad_sig_err":
		return []world.File{
			f("model.go", `package {P}

type Foo struct{ N int }

type Bar struct{ F Foo }

func ProvideFoo{N}() (Foo, error) { return Foo{N: {N}}, nil }

func ProvideBar(f Foo) Bar { return Bar{F: f} }
`),
			f("wire.go", injectHeader+`package {P}

import "github.com/google/wire"

func InitBar() {RES} {
	wire.Build(ProvideFoo{N}, ProvideBar)
	{RET}
}
`),
		}
	case "bad_sig_cleanup":
		return []world.File{
			f("model.go", `package {P}

type Foo struct{ N int }

type Bar struct{ F Foo }

func ProvideFoo{N}() (Foo, func()) { return Foo{N: {N}}, func() {} }

func ProvideBar(f Foo) Bar { return Bar{F: f} }
`),
			f("wire.go", injectHeader+`package {P}

import "github.com/google/wire"

func InitBar() {RES} {
	wire.Build(ProvideFoo{N}, ProvideBar)
	{RET}
}
`),
		}
	case "bad_nilvalue":
		return []world.File{
			f("model.go", basicModel+`
// Payload is an empty interface.
type Payload interface{}

type Msg struct{ P Payload }

func ProvideMsg(p Payload) *Msg { return &Msg{P: p} }
`),
			f("wire.go", injectHeader+`package {P}

import "github.com/google/wire"

func InitBar() {RES} {
	wire.Build(ProvideFoo{N}, ProvideBar)
	{RET}
}

func InitMsg() *Msg {
	wire.Build(wire.InterfaceValue(new(Payload), nil), ProvideMsg)
	return nil
}
`),
		}
	case "bad_two_errors":
		return []world.File{
			f("model.go", basicModel+`
func ProvideFooB() Foo { return Foo{N: -1} }

type Cache struct{}

// ProvideCache also reports how many entries were warmed up: not a legal provider signature.
func ProvideCache() (*Cache, int) { return &Cache{}, 0 }
`),
			f("sets.go", `package {P}

import "github.com/google/wire"

// BadSet provides Foo twice.
var BadSet = wire.NewSet(ProvideFoo{N}, ProvideFooB)
`),
			f("wire.go", injectHeader+`package {P}

import "github.com/google/wire"

func InitBar() {RES} {
	wire.Build(BadSet, ProvideCache, ProvideBar)
	{RET}
}
`),
		}
	case "bad_multival":
		return []world.File{
			f("model.go", basicModel),
			f("sets.go", `package {P}

import "github.com/google/wire"

func two() (wire.ProviderSet, wire.ProviderSet) {
	return wire.NewSet(ProvideFoo{N}), wire.NewSet(ProvideBar)
}

// A and B share one initialiser: neither is a wire.NewSet call wire can analyse.
var A, B = two()
`),
			f("wire.go", injectHeader+`package {P}

import "github.com/google/wire"

func InitBar() {RES} {
	wire.Build(ProvideFoo{N}, B)
	{RET}
}
`),
		}
	case "bad_paramset":
		return []world.File{
			f("model.go", basicModel),
			f("sets.go", `package {P}

import "github.com/google/wire"

var set = wire.NewSet(ProvideFoo{N}, ProvideBar)
`),
			f("wire.go", injectHeader+`package {P}

import "github.com/google/wire"

// InitBar takes a provider set as a PARAMETER that happens to be called like the package-level variable.
func InitBar(set wire.ProviderSet) {RES} {
	wire.Build(set)
	{RET}
}
`),
		}
	case "bad_libset":
		return []world.File{
			f("model.go", `package {P}

import "example.com/lib"

type Bar struct{ D lib.Dep }

func ProvideBar{N}(d lib.Dep) Bar { return Bar{D: d} }
`),
			f("wire.go", injectHeader+`package {P}

import (
	"example.com/lib"
	"github.com/google/wire"
)

func InitBar() {RES} {
	wire.Build(lib.BadSet, ProvideBar{N})
	{RET}
}
`),
		}
	case "bad_value_unexported":
		return []world.File{
			f("model.go", `package {P}

import "example.com/lib"

type Bar struct{ H lib.Hidden }

func ProvideBar{N}(h lib.Hidden) Bar { return Bar{H: h} }
`),
			f("wire.go", injectHeader+`package {P}

import (
	"example.com/lib"
	"github.com/google/wire"
)

func InitBar() {RES} {
	wire.Build(lib.HiddenSet, ProvideBar{N})
	{RET}
}
`),
		}
	case "mixed":
		return []world.File{
			f("model.go", basicModel),
			f("wire.go", injectHeader+`package {P}

import "github.com/google/wire"

func InitBar() {RES} {
	wire.Build(ProvideFoo{N}, ProvideBar)
	{RET}
}

func InitBaz() Baz {
	wire.Build(ProvideBaz)
	return Baz{}
}
`),
		}
	case "typeerr":
		return []world.File{
			f("model.go", basicModel+`
var broken{N} int = "not an int"
`),
			f("wire.go", injectHeader+`package {P}

import "github.com/google/wire"

func InitBar() Bar {
	wire.Build(ProvideFoo{N}, ProvideBar)
	return Bar{}
}
`),
		}
	case "lib_ok", "lib_badset", "lib_inj":
		body := `package lib

import (
	_ "container/ring" // a blank import in a package without injectors: must never reach another package's output

	"github.com/google/wire"
)

// Dep is provided by Set.
type Dep struct{ N int }

// Hidden is provided by HiddenSet through an unexported variable.
type Hidden struct{ S string }

var hidden = Hidden{S: "h{N}"}

func ProvideDep{N}() Dep { return Dep{N: {N}} }

func ProvideDepAlt() Dep { return Dep{N: -{N}} }

// Set is consumed by other packages' injectors.
var Set = wire.NewSet(ProvideDep{N})

// HiddenSet can only be used from inside this package.
var HiddenSet = wire.NewSet(wire.Value(hidden))
`
		if v == "lib_badset" {
			body += `
// BadSet provides Dep twice; nobody uses it.
var BadSet = wire.NewSet(ProvideDep{N}, ProvideDepAlt)
`
		}
		if v == "lib_inj" {
			return []world.File{f("lib.go", body), f("wire.go", injectHeader+`package lib

import "github.com/google/wire"

// InitHidden uses the set whose value names an unexported variable: fine from inside lib.
func InitHidden() Hidden {
	wire.Build(HiddenSet)
	return Hidden{}
}
`)}
		}
		return []world.File{f("lib.go", body)}
	}
	panic("unknown variant " + v)
}
