package engc

import (
	"encoding/json"
	"fmt"
	"os"
	"path/filepath"
	"sort"
	"strings"
	"time"

	"verif/sim/internal/common"
)

// Tier sizes.
func cases(prop, tier string) (n int, budget time.Duration) {
	if tier == "thorough" {
		return 1400, 40 * time.Minute
	}
	return 80, 8 * time.Minute
}

func hasKey(vs []common.Verdict, prop, key string) *common.Verdict {
	for i := range vs {
		if vs[i].Property == prop && vs[i].Key() == key {
			return &vs[i]
		}
	}
	return nil
}

// minimise shrinks c while the same clause of the same property still fails.
func (e *Engine) minimise(c *Case, prop, key string, scratch string) (*Case, *common.Verdict, []string) {
	runs := 0
	try := func(cand *Case) (*common.Verdict, []string) {
		runs++
		dir, _ := os.MkdirTemp(scratch, "min-")
		defer os.RemoveAll(dir)
		out := e.RunCase(cand, dir)
		if out.Infra != "" {
			return nil, nil
		}
		return hasKey(out.Verdicts, prop, key), out.Log
	}
	best := c
	v, log := try(best)
	if v == nil {
		return nil, nil, nil // does not reproduce
	}
	deadline := time.Now().Add(4 * time.Minute)
	// drop steps, last to first (later steps are usually irrelevant follow-ups)
	for i := len(best.Steps) - 1; i >= 0 && runs < 60 && time.Now().Before(deadline); i-- {
		if i >= len(best.Steps) {
			continue
		}
		cand := *best
		cand.Steps = append(append([]Step{}, best.Steps[:i]...), best.Steps[i+1:]...)
		if v2, l2 := try(&cand); v2 != nil {
			best, v, log = &cand, v2, l2
		}
	}
	// simplify what is left
	for i := range best.Steps {
		if runs >= 80 || !time.Now().Before(deadline) {
			break
		}
		st := best.Steps[i]
		if st.Op != "cmd" {
			continue
		}
		simpler := st
		simpler.Iter = "asc"
		simpler.Tags = ""
		if simpler.Iter == st.Iter && simpler.Tags == st.Tags {
			continue
		}
		cand := *best
		cand.Steps = append([]Step{}, best.Steps...)
		cand.Steps[i] = simpler
		if v2, l2 := try(&cand); v2 != nil {
			best, v, log = &cand, v2, l2
		}
	}
	if best.Layout != "mod" && runs < 85 {
		cand := *best
		cand.Layout = "mod"
		if v2, l2 := try(&cand); v2 != nil {
			best, v, log = &cand, v2, l2
		}
	}
	return best, v, log
}

// Check runs a batch of histories for prop and returns the exit code.
func Check(prop, tier string) int {
	start := time.Now()
	seed := common.Seed()
	fmt.Printf("VERIF_SEED=%d property=%s tier=%s engine=C (CLI/tree history simulator)\n", seed, prop, tier)
	b := common.Prepare(prop, false)
	e := NewEngine(b, prop)
	n, budget := cases(prop, tier)
	n = common.CasesOverride(n)
	deadline := common.NewDeadline(budget)
	scratch := filepath.Join(b.Root, "cases")
	os.MkdirAll(scratch, 0777)

	type result struct {
		c   *Case
		out *Outcome
	}
	results := common.ParallelMap(n, common.Workers(), func(i int) result {
		if deadline.Passed() {
			return result{}
		}
		r := common.Rng(seed, i)
		c := GenCase(r, prop, tier == "thorough")
		dir := filepath.Join(scratch, fmt.Sprintf("c%d", i))
		os.MkdirAll(dir, 0777)
		defer os.RemoveAll(dir)
		return result{c, e.RunCase(c, dir)}
	})

	var found []common.Found
	var infraNotes []string
	ran, steps := 0, 0
	var samples []interface{}
	for i, r := range results {
		if r.c == nil {
			continue
		}
		ran++
		if r.out.Infra != "" {
			// harness trouble in one case must not hide a reproducible violation found in another: noted, decided at the end
			infraNotes = append(infraNotes, fmt.Sprintf("case %d: %s", i, r.out.Infra))
			continue
		}
		steps += r.out.Steps
		if len(samples) < 3 {
			var ss []string
			for _, st := range r.c.Steps {
				ss = append(ss, st.String())
			}
			samples = append(samples, map[string]interface{}{"case": i, "layout": r.c.Layout, "packages": r.c.Pkgs, "history": ss})
		}
		for _, v := range r.out.Verdicts {
			if v.Property == prop {
				found = append(found, common.Found{Verdict: v, Index: i, Case: r.c, Trace: r.out.Log})
			}
		}
	}
	if ran == 0 {
		common.Infra("no case ran")
	}
	fmt.Printf("phase histories: %d cases, %.0fs\n", ran, time.Since(start).Seconds())
	// C17, C18: fault-point enumeration — for sampled invocations, every I/O call x every fault kind
	if prop == "C17" || prop == "C18" {
		nb := 3
		if tier == "thorough" {
			nb = 60
		}
		nb = common.CasesOverride(nb)
		type bres struct {
			b     *EnumBase
			cases []*Case
			infra string
		}
		bases := common.ParallelMap(nb, common.Workers(), func(i int) bres {
			if deadline.Passed() {
				return bres{}
			}
			eb := GenEnumBase(common.Rng(seed^0xe9f3, i))
			dir := filepath.Join(scratch, fmt.Sprintf("b%d", i))
			os.MkdirAll(dir, 0777)
			defer os.RemoveAll(dir)
			out := e.RunCase(eb.Case, dir)
			if out.Infra != "" {
				return bres{b: eb, infra: out.Infra}
			}
			return bres{b: eb, cases: eb.Derive(out.Traces[eb.At], out.AppDir)}
		})
		var derived []*Case
		var owner []int
		for i, br := range bases {
			if br.b == nil {
				continue
			}
			if br.infra != "" {
				writeEvidence(e, prop, tier, seed, start, ran, steps, samples, 0, "infrastructure trouble: "+br.infra)
				common.Infra("enumeration base %d: %s", i, br.infra)
			}
			e.Stats.Counts.Add("enum_base_invocations", 1)
			e.Stats.Counts.Add("enum_fault_points", len(br.cases))
			if i == 0 {
				var ss []string
				for _, st := range br.b.Case.Steps {
					ss = append(ss, st.String())
				}
				samples = append(samples, map[string]interface{}{"fault_point_enumeration_base": i, "history": ss, "command_under_enumeration": br.b.Case.Steps[br.b.At].String(), "fault_points": len(br.cases)})
			}
			for _, c := range br.cases {
				derived = append(derived, c)
				owner = append(owner, i)
			}
		}
		dres := common.ParallelMap(len(derived), common.Workers(), func(i int) result {
			if deadline.Passed() {
				return result{}
			}
			dir := filepath.Join(scratch, fmt.Sprintf("d%d", i))
			os.MkdirAll(dir, 0777)
			defer os.RemoveAll(dir)
			return result{derived[i], e.RunCase(derived[i], dir)}
		})
		for i, r := range dres {
			if r.c == nil {
				e.Stats.Counts.Add("enum_fault_points_not_run_budget", 1)
				continue
			}
			if r.out.Infra != "" {
				// harness trouble in one case must not hide a reproducible violation found in another: noted, decided at the end
				infraNotes = append(infraNotes, fmt.Sprintf("enumerated fault case %d (base %d): %s", i, owner[i], r.out.Infra))
				continue
			}
			ran++
			steps += r.out.Steps
			for _, v := range r.out.Verdicts {
				if v.Property == prop {
					found = append(found, common.Found{Verdict: v, Index: 400000 + i, Case: r.c, Trace: r.out.Log})
				}
			}
		}
	}
	fmt.Printf("phase fault-point enumeration done: %.0fs\n", time.Since(start).Seconds())
	// C18: histories over evolving GENERATED modules (rich, realistic stale outputs)
	if prop == "C18" {
		ne := 30
		if tier == "thorough" {
			ne = 600
		}
		ne = common.CasesOverride(ne)
		type eres struct {
			c   *EvolveCase
			out *Outcome
		}
		eresults := common.ParallelMap(ne, common.Workers(), func(i int) eres {
			if deadline.Passed() {
				return eres{}
			}
			c := GenEvolveCase(common.Rng(seed^0xe701, i))
			dir := filepath.Join(scratch, fmt.Sprintf("e%d", i))
			os.MkdirAll(dir, 0777)
			defer os.RemoveAll(dir)
			return eres{c, e.RunEvolveCase(c, dir)}
		})
		for i, r := range eresults {
			if r.c == nil {
				continue
			}
			if r.out.Infra != "" {
				// harness trouble in one case must not hide a reproducible violation found in another: noted, decided at the end
				infraNotes = append(infraNotes, fmt.Sprintf("evolve case %d: %s", i, r.out.Infra))
				continue
			}
			ran++
			steps += r.out.Steps
			if i == 0 {
				samples = append(samples, map[string]interface{}{"evolving_generated_module_case": i, "injectors_before": len(r.c.Before.Injectors), "injectors_after": len(r.c.After.Injectors), "packages": len(r.c.After.Pkgs), "second_gen_iteration": r.c.Iter, "log": r.out.Log})
			}
			for _, v := range r.out.Verdicts {
				found = append(found, common.Found{Verdict: v, Index: 300000 + i, Case: r.c, Trace: r.out.Log})
			}
		}
	}
	fmt.Printf("phase evolving modules done: %.0fs\n", time.Since(start).Seconds())
	// C19: model-based check of `wire show` on generated modules, under several iteration schedules
	if prop == "C19" {
		ns := 40
		if tier == "thorough" {
			ns = 700
		}
		ns = common.CasesOverride(ns)
		type sres struct {
			c   *ShowCase
			out *Outcome
		}
		sresults := common.ParallelMap(ns, common.Workers(), func(i int) sres {
			if deadline.Passed() {
				return sres{}
			}
			c := GenShowCase(common.Rng(seed^0x5105, i), tier == "thorough")
			dir := filepath.Join(scratch, fmt.Sprintf("s%d", i))
			os.MkdirAll(dir, 0777)
			defer os.RemoveAll(dir)
			return sres{c, e.RunShowCase(c, dir)}
		})
		// differential check-vs-gen agreement on generated modules with seeded defects
		na := 60
		if tier == "thorough" {
			na = 900
		}
		na = common.CasesOverride(na)
		type ares struct {
			c   *AgreeCase
			out *Outcome
		}
		aresults := common.ParallelMap(na, common.Workers(), func(i int) ares {
			if deadline.Passed() {
				return ares{}
			}
			c := GenAgreeCase(common.Rng(seed^0xa61ee, i))
			dir := filepath.Join(scratch, fmt.Sprintf("a%d", i))
			os.MkdirAll(dir, 0777)
			defer os.RemoveAll(dir)
			return ares{c, e.RunAgreeCase(c, dir)}
		})
		for i, r := range aresults {
			if r.c == nil {
				continue
			}
			if r.out.Infra != "" {
				// harness trouble in one case must not hide a reproducible violation found in another: noted, decided at the end
				infraNotes = append(infraNotes, fmt.Sprintf("agreement case %d: %s", i, r.out.Infra))
				continue
			}
			ran++
			steps += r.out.Steps
			if i == 1 {
				samples = append(samples, map[string]interface{}{"check_vs_gen_case": i, "mutation": r.c.Mutation, "types": len(r.c.Module.Types), "injectors": len(r.c.Module.Injectors), "log": r.out.Log})
			}
			for _, v := range r.out.Verdicts {
				found = append(found, common.Found{Verdict: v, Index: 200000 + i, Case: r.c, Trace: r.out.Log})
			}
		}
		for i, r := range sresults {
			if r.c == nil {
				continue
			}
			if r.out.Infra != "" {
				// harness trouble in one case must not hide a reproducible violation found in another: noted, decided at the end
				infraNotes = append(infraNotes, fmt.Sprintf("show case %d: %s", i, r.out.Infra))
				continue
			}
			ran++
			steps += r.out.Steps
			if i == 0 {
				samples = append(samples, map[string]interface{}{"show_model_case": i, "sets": len(r.c.Module.Sets), "types": len(r.c.Module.Types), "schedules": r.c.Iters, "log": r.out.Log})
			}
			for _, v := range r.out.Verdicts {
				// keep only the failing schedule in the replay
				rc := &ShowCase{Module: r.c.Module, Iters: r.c.Iters}
				if j := strings.Index(v.Detail, "iteration "); j >= 0 {
					rc.Iters = []string{v.Detail[j+len("iteration "):]}
				}
				found = append(found, common.Found{Verdict: v, Index: 100000 + i, Case: rc, Trace: r.out.Log})
			}
		}
	}
	if os.Getenv("VERIF_LOG") != "" {
		var lines []string
		for i, r := range results {
			if r.c == nil {
				continue
			}
			lines = append(lines, fmt.Sprintf("== case %d layout=%s", i, r.c.Layout))
			lines = append(lines, r.out.Log...)
		}
		common.WriteRunLog(lines)
	}
	// one representative per key, minimised (unlisted ones only)
	findings := common.LoadFindings()
	sort.SliceStable(found, func(i, j int) bool { return found[i].Index < found[j].Index })
	seen := map[string]bool{}
	var reps []common.Found
	for _, f := range found {
		k := f.Verdict.Key()
		if seen[k] {
			continue
		}
		seen[k] = true
		if ec, ok := f.Case.(*EvolveCase); ok {
			if common.KnownOpen(findings, prop, k) == nil {
				dir, _ := os.MkdirTemp(scratch, "evolverep-")
				o := e.RunEvolveCase(ec, dir)
				os.RemoveAll(dir)
				if hasKey(o.Verdicts, prop, k) == nil {
					writeEvidence(e, prop, tier, seed, start, ran, steps, samples, 0, "a violation did not reproduce")
					common.Infra("evolve violation %s did not reproduce when re-run: harness nondeterminism", k)
				}
			}
			reps = append(reps, f)
			continue
		}
		if ac, ok := f.Case.(*AgreeCase); ok {
			if common.KnownOpen(findings, prop, k) == nil {
				dir, _ := os.MkdirTemp(scratch, "agreerep-")
				o := e.RunAgreeCase(ac, dir)
				os.RemoveAll(dir)
				if hasKey(o.Verdicts, prop, k) == nil {
					writeEvidence(e, prop, tier, seed, start, ran, steps, samples, 0, "a violation did not reproduce")
					common.Infra("agreement violation %s did not reproduce when re-run: harness nondeterminism", k)
				}
			}
			reps = append(reps, f)
			continue
		}
		if sc, ok := f.Case.(*ShowCase); ok {
			if common.KnownOpen(findings, prop, k) == nil {
				dir, _ := os.MkdirTemp(scratch, "showrep-")
				o := e.RunShowCase(sc, dir)
				os.RemoveAll(dir)
				if hasKey(o.Verdicts, prop, k) == nil {
					writeEvidence(e, prop, tier, seed, start, ran, steps, samples, 0, "a violation did not reproduce")
					common.Infra("show-model violation %s did not reproduce when re-run: harness nondeterminism", k)
				}
			}
			reps = append(reps, f)
			continue
		}
		if common.KnownOpen(findings, prop, k) == nil && len(reps) < 6 {
			mc, mv, mlog := e.minimise(f.Case.(*Case), prop, k, scratch)
			if mc == nil {
				writeEvidence(e, prop, tier, seed, start, ran, steps, samples, 0, "a violation did not reproduce")
				common.Infra("violation %s of case %d did not reproduce when re-run: harness nondeterminism", k, f.Index)
			}
			f.Case, f.Verdict, f.Trace = mc, *mv, mlog
			f.Note = "minimised history; replay with ./check replay <this file>"
		}
		reps = append(reps, f)
	}
	unlisted, _ := common.Report(prop, "C", seed, reps)
	if len(infraNotes) > 0 && unlisted == 0 {
		writeEvidence(e, prop, tier, seed, start, ran, steps, samples, 0, "infrastructure trouble: "+strings.Join(infraNotes, "; "))
		common.Infra("%s", strings.Join(infraNotes, "; "))
	}
	note := ""
	if len(infraNotes) > 0 {
		note = fmt.Sprintf("%d case(s) ended in harness trouble and were not judged: %s", len(infraNotes), strings.Join(infraNotes, "; "))
		fmt.Println("note:", note)
	}
	writeEvidence(e, prop, tier, seed, start, ran, steps, samples, unlisted, note)
	fmt.Printf("%s: %d histories, %d steps, %d wire processes, %d distinct (state,command,fault) triples, %d distinct schedules, %d unlisted violation(s), %.0fs\n",
		prop, ran, steps, total(e.Stats.Commands.Map()), e.Stats.States.Len(), e.Stats.Schedules.Len(), unlisted, time.Since(start).Seconds())
	if unlisted > 0 {
		return common.ExitViolation
	}
	return common.ExitOK
}

func total(m map[string]int) int {
	t := 0
	for _, v := range m {
		t += v
	}
	return t
}

func writeEvidence(e *Engine, prop, tier string, seed uint64, start time.Time, ran, steps int, samples []interface{}, violations int, note string) {
	wall := time.Since(start).Seconds()
	cmds := total(e.Stats.Commands.Map())
	if samples == nil {
		samples = []interface{}{"(none: the run stopped before any case completed)"}
	}
	cov := map[string]interface{}{
		"evaluations":         cmds,
		"distinct_nontrivial": e.Stats.States.Len(),
		"rule": "cases are seeded histories (6-20 steps: switch variant / delete output / corrupt output / gen|diff|check|show with options, I/O faults and an iteration schedule) over a 3-5 package module; evaluations = wire processes executed (incl. the fault-free reference run on a pristine tree per command and the gen-again/diff follow-ups); distinct_nontrivial = distinct triples (abstract tree state = per package variant + how each left-over output got its content + targeted or not, command, faults that actually fired), which excludes nothing trivial by construction since every triple contains a command execution judged by the model" + enumRule(prop),
		"samples":             samples,
		"histories":           ran,
		"steps":               steps,
		"runs_per_hour":       float64(ran) / wall * 3600,
		"wire_processes_per_hour": float64(cmds) / wall * 3600,
		"simulated_time":      "none: wire has no timers or deadlines; progress is counted in steps (commands)",
		"commands_by_kind":    e.Stats.Commands.Map(),
		"faults_configured":   e.Stats.FaultsConf.Map(),
		"faults_fired":        e.Stats.FaultsFired.Map(),
		"distinct_iteration_schedules": e.Stats.Schedules.Len(),
		"reach_probes":        e.Stats.Counts.Map(),
		"components":          common.Components("C"),
		"seam_sites":          len(e.B.Sites),
	}
	if note != "" {
		cov["note"] = note
	}
	common.WriteEvidence(&common.Evidence{
		PropertyID: prop, Tier: tier, Seed: int64(seed), Level: "exploration", Coverage: cov,
		Assumptions: []string{
			"go list / go/packages / go/types / go/format results are deterministic functions of tree and environment (trusted side of the seam)",
			"class labels of the template variants (each mirrors a documented rule or a golden error case); a verdict is drawn only where wire's own diagnostics on a pristine tree agree with the label",
			"the fresh-checkout reference is produced by the same binary (history independence and isolation are relative to it)",
			"the instrumenter's rewrites preserve behaviour (transparency self-test)",
		},
		WallS: wall, Violations: violations,
	})
}

// Replay re-runs the case of a replay file; exit 1 if the recorded clause fails again.
func Replay(r *common.Replay) int {
	var c Case
	if err := json.Unmarshal(r.Case, &c); err != nil {
		common.Infra("replay: %v", err)
	}
	b := common.Prepare("replay", false)
	e := NewEngine(b, "all")
	dir := filepath.Join(b.Root, "replay")
	os.MkdirAll(dir, 0777)
	var out *Outcome
	if len(c.Pkgs) == 0 {
		var ac AgreeCase
		var sc ShowCase
		var ec EvolveCase
		if err := json.Unmarshal(r.Case, &ec); err == nil && ec.Evolve && ec.Before != nil {
			out = e.RunEvolveCase(&ec, dir)
		} else if err := json.Unmarshal(r.Case, &ac); err == nil && ac.Module != nil && ac.Agree {
			out = e.RunAgreeCase(&ac, dir)
		} else if err := json.Unmarshal(r.Case, &sc); err == nil && sc.Module != nil {
			out = e.RunShowCase(&sc, dir)
		} else {
			common.Infra("replay: not a history, not a show-model case, not an agreement case")
		}
	} else {
		out = e.RunCase(&c, dir)
	}
	if out.Infra != "" {
		common.Infra("%s", out.Infra)
	}
	for _, l := range out.Log {
		fmt.Println(l)
	}
	if v := hasKey(out.Verdicts, r.Property, r.Verdict.Key()); v != nil {
		fmt.Printf("reproduced: %s %s expected %s observed %s\n", v.Property, v.Key(), v.Expected, v.Observed)
		fmt.Printf("VIOLATION property=%s replay=%s\n", r.Property, os.Getenv("VERIF_REPLAY_PATH"))
		return common.ExitViolation
	}
	fmt.Printf("not reproduced: clause %s of %s holds on this tree\n", r.Verdict.Key(), r.Property)
	return common.ExitOK
}

func enumRule(prop string) string {
	if prop == "C17" || prop == "C18" {
		return "; plus the fault-point enumeration phase: for each sampled invocation (reach_probes.enum_base_invocations) the command is run fault-free, every I/O seam call of its trace is listed and the history is re-executed once per (I/O call, fault kind) (reach_probes.enum_fault_points), each closed by one fault-free gen with gen-again/diff follow-ups"
	}
	return ""
}
