package engc

import (
	"fmt"
	"math/rand/v2"
	"os"
	"path/filepath"
	"reflect"
	"sort"
	"strings"

	"verif/sim/internal/common"
	"verif/sim/internal/progen"
	"verif/sim/internal/world"
)

// ShowCase is one generated module whose `wire show` output is compared with the reference model.
type ShowCase struct {
	Module *progen.Module `json:"module"`
	Iters  []string       `json:"iters"`
}

// GenShowCase draws a module rich in named sets.
func GenShowCase(r *rand.Rand, thorough bool) *ShowCase {
	k := progen.RandomKnobs(r, false)
	k.NSets = 2 + r.IntN(7)
	k.NPkgs = 1 + r.IntN(4)
	k.NTypes = 8 + r.IntN(22)
	k.FanIn = 1 + r.IntN(4)
	k.InjPerPkg = 1 + r.IntN(2)
	if r.IntN(3) == 0 {
		k.ExtPkgs = 1
	}
	m := progen.Generate(r, k)
	if r.IntN(2) == 0 {
		m.AddFacade(r)
	}
	c := &ShowCase{Module: m, Iters: []string{"asc", "desc", fmt.Sprintf("shuffle:%d", r.IntN(100000))}}
	if thorough {
		c.Iters = append(c.Iters, fmt.Sprintf("shuffle:%d", r.IntN(100000)), fmt.Sprintf("shuffle:%d", r.IntN(100000)))
	}
	return c
}

func describe(sm progen.SetModel) string {
	var gs []string
	for g, outs := range sm.Groups {
		gs = append(gs, fmt.Sprintf("given {%s}: %s", g, strings.Join(outs, " ")))
	}
	sort.Strings(gs)
	return fmt.Sprintf("includes %v; %s", sm.Imports, strings.Join(gs, " | "))
}

// RunShowCase runs `wire show ./...` under each schedule and compares with the model.
func (e *Engine) RunShowCase(c *ShowCase, dir string) *Outcome {
	out := &Outcome{}
	app, ext := c.Module.Files(false)
	w, err := world.New(filepath.Join(dir, "w"), world.LayoutMod, "", e.B.MarkerGo, app, ext...)
	if err != nil {
		out.Infra = err.Error()
		return out
	}
	want := c.Module.ShowModel()
	wantInj := c.Module.ShowInjectors()
	for i, it := range c.Iters {
		res := w.Exec(e.B.WireSim, w.AppDir, &world.Plan{Seed: uint64(i + 1), Iter: it, Clock: 1, Pid: 1, Host: "h"}, dir, nil, "show", "./...")
		e.Stats.Commands.Add("showmodel:show", 1)
		out.Steps++
		if res.TimedOut {
			out.Infra = "watchdog: show timed out"
			return out
		}
		if res.Exit != 0 {
			// the generator's programs are accepted by construction; if wire disagrees it is no verdict for C19's show clause
			out.Log = append(out.Log, fmt.Sprintf("show exit %d under %s: %s", res.Exit, it, firstLines(w.Scrub(res.Stderr), 4)))
			e.Stats.Counts.Add("showmodel_rejected_by_wire", 1)
			return out
		}
		e.Stats.Schedules.Add(scheduleDigest(res.Trace))
		got, gotInj := progen.ParseShow(res.Stdout)
		if len(want) > 0 && strings.TrimSpace(res.Stdout) != "" {
			understood := false
			for k := range want {
				if _, ok := got[k]; ok {
					understood = true
				}
			}
			if !understood || !strings.Contains(res.Stdout, "\tOutputs given ") {
				// a different rendering of `wire show` is not a violation of C19; the reference parser cannot judge it
				out.Infra = "the output format of `wire show` is not the one the reference parser understands: " + firstLines(res.Stdout, 3)
				return out
			}
		}
		out.Log = append(out.Log, fmt.Sprintf("show under %s: %d sets, %d injectors", it, len(got), len(gotInj)))
		var names []string
		for k := range want {
			names = append(names, k)
		}
		for k := range got {
			if _, ok := want[k]; !ok {
				names = append(names, k)
			}
		}
		sort.Strings(names)
		for _, k := range names {
			ws, wok := want[k]
			gs, gok := got[k]
			switch {
			case !gok:
				out.Verdicts = append(out.Verdicts, common.Verdict{Property: "C19", Clause: "A2", Disc: "show/set-not-listed", Expected: k, Observed: "missing", Detail: "iteration " + it})
			case !wok:
				out.Verdicts = append(out.Verdicts, common.Verdict{Property: "C19", Clause: "A2", Disc: "show/unexpected-set", Expected: "not listed", Observed: k, Detail: "iteration " + it})
			case !reflect.DeepEqual(nonNil(ws.Imports), nonNil(gs.Imports)):
				out.Verdicts = append(out.Verdicts, common.Verdict{Property: "C19", Clause: "A2", Disc: "show/included-sets-wrong", Expected: fmt.Sprint(ws.Imports), Observed: fmt.Sprint(gs.Imports), Detail: k + " iteration " + it})
			case !sameGroups(ws.Groups, gs.Groups):
				out.Verdicts = append(out.Verdicts, common.Verdict{Property: "C19", Clause: "A2", Disc: "show/grouping-by-inputs-wrong", Expected: describe(ws), Observed: describe(gs), Detail: k + " iteration " + it})
			default:
				e.Stats.Counts.Add("showmodel_sets_equal_model", 1)
				if len(ws.Groups) >= 3 {
					e.Stats.Counts.Add("probe_show_set_with_3_or_more_input_groups", 1)
				}
			}
		}
		if !reflect.DeepEqual(nonNil(wantInj), nonNil(gotInj)) {
			out.Verdicts = append(out.Verdicts, common.Verdict{Property: "C19", Clause: "A2", Disc: "show/injector-list-wrong", Expected: fmt.Sprint(wantInj), Observed: fmt.Sprint(gotInj), Detail: "iteration " + it})
		}
		for k, ws := range want {
			var sb strings.Builder
			fmt.Fprintf(&sb, "showmodel|%s|%d groups|%s", k, len(ws.Groups), it)
			_ = sb
		}
		if len(out.Verdicts) > 0 {
			break
		}
	}
	// distinct non-trivial measure: sets with their group structure
	for k, ws := range want {
		e.Stats.States.Add("showmodel:" + k + ":" + describe(ws))
	}
	os.RemoveAll(filepath.Join(dir, "w"))
	return out
}

func nonNil(s []string) []string {
	if s == nil {
		return []string{}
	}
	return s
}

func sameGroups(a, b map[string][]string) bool {
	if len(a) != len(b) {
		return false
	}
	for k, v := range a {
		w, ok := b[k]
		if !ok || !reflect.DeepEqual(nonNil(v), nonNil(w)) {
			return false
		}
	}
	return true
}
