// Package common holds what every engine needs: the scratch build of the
// working tree, the PRNG, evidence and replay files, known findings.
package common

import (
	"bytes"
	"encoding/json"
	"fmt"
	"math/rand/v2"
	"os"
	"os/exec"
	"path/filepath"
	"sort"
	"strconv"
	"strings"
	"sync"
	"time"

	"verif/sim/internal/instrument"
)

// Exit codes.
const (
	ExitOK        = 0
	ExitViolation = 1
	ExitInfra     = 2
)

// Infra aborts with exit 2: build trouble, watchdog, harness nondeterminism.
// Never reported as a violation.
func Infra(format string, args ...interface{}) {
	fmt.Fprintf(os.Stderr, "INFRA: "+format+"\n", args...)
	cleanupAll()
	os.Exit(ExitInfra)
}

var (
	cleanupMu sync.Mutex
	cleanups  []string
)

// RegisterCleanup records a directory to remove at exit.
func RegisterCleanup(dir string) {
	cleanupMu.Lock()
	cleanups = append(cleanups, dir)
	cleanupMu.Unlock()
}

func cleanupAll() {
	if os.Getenv("VERIF_KEEP") != "" {
		return
	}
	cleanupMu.Lock()
	defer cleanupMu.Unlock()
	for _, d := range cleanups {
		os.RemoveAll(d)
	}
	cleanups = nil
}

// Exit removes scratch directories and exits.
func Exit(code int) {
	cleanupAll()
	os.Exit(code)
}

// VerifDir is /verif (the directory holding MANIFEST.json).
func VerifDir() string {
	if d := os.Getenv("VERIF_DIR"); d != "" {
		return d
	}
	return "/verif"
}

// RepoDir is the tree under verification.
func RepoDir() string {
	if d := os.Getenv("VERIF_REPO"); d != "" {
		return d
	}
	return "/repo"
}

// Seed returns VERIF_SEED (default 1).
func Seed() uint64 {
	if s := os.Getenv("VERIF_SEED"); s != "" {
		if v, err := strconv.ParseUint(s, 10, 64); err == nil {
			return v
		}
		if v, err := strconv.ParseInt(s, 10, 64); err == nil {
			return uint64(v)
		}
	}
	return 1
}

// Workers is the worker-pool size (results never depend on it).
func Workers() int {
	if s := os.Getenv("VERIF_WORKERS"); s != "" {
		if v, err := strconv.Atoi(s); err == nil && v > 0 {
			return v
		}
	}
	return 16
}

// Rng derives the PRNG of case idx of a batch.
func Rng(seed uint64, idx int) *rand.Rand {
	return rand.New(rand.NewPCG(seed, uint64(idx)*0x9e3779b97f4a7c15+0x1234567))
}

// GoEnv is the environment for building things with the go tool offline.
func GoEnv(extra ...string) []string {
	env := []string{}
	for _, kv := range os.Environ() {
		k := kv
		if i := strings.IndexByte(kv, '='); i >= 0 {
			k = kv[:i]
		}
		switch k {
		case "GOFLAGS", "GOPROXY", "GOSUMDB", "GOTOOLCHAIN", "GO111MODULE", "GOPATH", "GOWORK":
			continue
		}
		if strings.HasPrefix(k, "VERIF_SIM_") {
			continue
		}
		env = append(env, kv)
	}
	env = append(env, "GOFLAGS=-mod=mod", "GOPROXY=off", "GOSUMDB=off", "GOTOOLCHAIN=local", "GOWORK=off")
	return append(env, extra...)
}

// Build is a scratch build of the working tree.
type Build struct {
	Root     string // scratch root (removed at exit)
	Tree     string // instrumented copy of the repository
	WireSim  string // instrumented cmd/wire
	WireReal string // untouched cmd/wire ("" unless requested)
	MarkerGo []byte // wire.go of the working tree (the marker package worlds depend on)
	Sites    []instrument.Site
	TreeHash string
}

// ScratchBase is where scratch directories go.
func ScratchBase() string {
	if d := os.Getenv("VERIF_SCRATCH"); d != "" {
		return d
	}
	return os.TempDir()
}

func run(dir string, env []string, name string, args ...string) ([]byte, error) {
	cmd := exec.Command(name, args...)
	cmd.Dir = dir
	cmd.Env = env
	var buf bytes.Buffer
	cmd.Stdout = &buf
	cmd.Stderr = &buf
	err := cmd.Run()
	return buf.Bytes(), err
}

// Prepare copies the working tree of the repository to a scratch directory,
// instruments the copy and builds cmd/wire from it. Any failure is exit 2.
func Prepare(tag string, wantReal bool) *Build {
	root, err := os.MkdirTemp(ScratchBase(), "verif-"+tag+"-")
	if err != nil {
		Infra("scratch: %v", err)
	}
	RegisterCleanup(root)
	b := &Build{Root: root, Tree: filepath.Join(root, "tree")}
	repo := RepoDir()
	if out, err := run("/", os.Environ(), "rsync", "-a", "--exclude=.git", "--exclude=*.verif-broken", repo+"/", b.Tree+"/"); err != nil {
		Infra("rsync: %v\n%s", err, out)
	}
	b.MarkerGo, err = os.ReadFile(filepath.Join(b.Tree, "wire.go"))
	if err != nil {
		Infra("marker package: %v", err)
	}
	bin := filepath.Join(root, "bin")
	os.MkdirAll(bin, 0777)
	if wantReal {
		b.WireReal = filepath.Join(bin, "wire.real")
		if out, err := run(b.Tree, GoEnv(), "go", "build", "-trimpath", "-o", b.WireReal, "./cmd/wire"); err != nil {
			Infra("the working tree's cmd/wire does not build:\n%s", out)
		}
	}
	sites, err := instrument.Run(b.Tree)
	if err != nil {
		Infra("%v", err)
	}
	b.Sites = sites
	b.WireSim = filepath.Join(bin, "wire.sim")
	buildArgs := []string{"build", "-trimpath"}
	if os.Getenv("VERIF_COVER") != "" {
		// diagnostic only (tools/cover.sh): statement coverage of wire's own packages under the workloads;
		// the processes write their counters to $GOCOVERDIR, which world.Env passes through
		buildArgs = append(buildArgs, "-cover", "-coverpkg=github.com/google/wire/internal/wire,github.com/google/wire/cmd/wire")
	}
	buildArgs = append(buildArgs, "-o", b.WireSim, "./cmd/wire")
	if out, err := run(b.Tree, GoEnv(), "go", buildArgs...); err != nil {
		Infra("the instrumented cmd/wire does not build:\n%s", out)
	}
	return b
}

// ---------------------------------------------------------------- evidence

// Evidence is /verif/evidence/<id>.json.
type Evidence struct {
	PropertyID  string                 `json:"property_id"`
	Tier        string                 `json:"tier"`
	Seed        int64                  `json:"seed"`
	Level       string                 `json:"level"`
	Coverage    map[string]interface{} `json:"coverage"`
	Assumptions []string               `json:"assumptions"`
	WallS       float64                `json:"wall_s"`
	Violations  int                    `json:"violations"`
}

// WriteEvidence writes the evidence file (also on exit 1 and 2).
func WriteEvidence(ev *Evidence) {
	dir := filepath.Join(VerifDir(), "evidence")
	if d := os.Getenv("VERIF_EVIDENCE_DIR"); d != "" {
		dir = d // runs against a seeded change (tools/mutrun.sh) must not overwrite the evidence of the real tree
	}
	os.MkdirAll(dir, 0777)
	data, err := json.MarshalIndent(ev, "", " ")
	if err != nil {
		Infra("evidence: %v", err)
	}
	if err := os.WriteFile(filepath.Join(dir, ev.PropertyID+".json"), append(data, '\n'), 0666); err != nil {
		Infra("evidence: %v", err)
	}
}

// Components is the "what ran real, what was simulated, what was stubbed" table of one engine ("A", "B" or "C").
func Components(engine string) map[string]interface{} {
	real := []string{"working tree's cmd/wire + internal/wire (instrumented scratch copy; one real process per command)", "go/packages + `go list` subprocesses", "go/types", "go/format", "the real file system under a private scratch root"}
	simulated := []string{"iteration order of every Go map / typeutil.Map / reflect map-key walk in wire", "clock, pid, hostname reads (values the seams would return if wire read them)"}
	synthetic := []string{}
	switch engine {
	case "A":
		real = append(real, "Go compiler and linker", "the generated injectors (wire_gen.go), executed in a driver process")
		simulated = append(simulated, "provider failures in generated injectors (which error-capable call fails, what it returns next to the error)", "the caller of the injector (invokes the returned cleanup once)")
		synthetic = append(synthetic, "user provider functions of the workload programs (bodies owned by the simulator: record the call, succeed or fail as planned)")
	case "B":
		simulated = append(simulated, "checkout location, cwd + package pattern, co-processed packages, dependency layout, environment noise (configurations, not faults)")
		synthetic = append(synthetic, "workload programs (wire's testdata corpus + seeded modules); never executed, only generated")
	case "C":
		simulated = append(simulated, "file read/write/create-temp/getwd outcomes and crash points of the wire process (errors, short and torn writes, exit at a chosen write)", "availability of the go tool", "modification times, left-over and hand-damaged output files (history)")
		synthetic = append(synthetic, "workload packages (template variants and seeded modules); never executed, only analysed")
	}
	return map[string]interface{}{
		"real":      real,
		"synthetic": synthetic,
		"simulated": simulated,
		"stubbed":   []string{},
	}
}

// ---------------------------------------------------------------- findings

// Finding is one line of KNOWN_FINDINGS.txt.
type Finding struct {
	Fixed    bool
	Property string
	Key      string
	Text     string
}

// LoadFindings reads /verif/KNOWN_FINDINGS.txt (never written at run time).
func LoadFindings() []Finding {
	data, err := os.ReadFile(filepath.Join(VerifDir(), "KNOWN_FINDINGS.txt"))
	if err != nil {
		return nil
	}
	var out []Finding
	for _, l := range strings.Split(string(data), "\n") {
		l = strings.TrimSpace(l)
		var f Finding
		switch {
		case strings.HasPrefix(l, "finding:"):
			l = strings.TrimSpace(l[len("finding:"):])
		case strings.HasPrefix(l, "fixed:"):
			f.Fixed = true
			l = strings.TrimSpace(l[len("fixed:"):])
		default:
			continue
		}
		fields := strings.Fields(l)
		for _, fl := range fields {
			if strings.HasPrefix(fl, "property=") {
				f.Property = fl[len("property="):]
			}
			if strings.HasPrefix(fl, "key=") {
				f.Key = fl[len("key="):]
			}
		}
		f.Text = l
		out = append(out, f)
	}
	return out
}

// KnownOpen returns the open finding matching (property, key), if any.
func KnownOpen(fs []Finding, property, key string) *Finding {
	for i := range fs {
		if !fs[i].Fixed && fs[i].Property == property && fs[i].Key == key {
			return &fs[i]
		}
	}
	return nil
}

// ---------------------------------------------------------------- violations / replay

// Verdict is one violated oracle clause.
type Verdict struct {
	Property string `json:"property"`
	Clause   string `json:"clause"`
	Disc     string `json:"discriminator"`
	Expected string `json:"expected"`
	Observed string `json:"observed"`
	Detail   string `json:"detail,omitempty"`
}

// Key identifies the violation class (used by known findings and by the shrinker).
func (v Verdict) Key() string { return v.Clause + "/" + v.Disc }

// Replay is the content of a replay file.
type Replay struct {
	Property string          `json:"property"`
	Engine   string          `json:"engine"`
	Seed     uint64          `json:"seed"`
	Index    int             `json:"index"`
	Verdict  Verdict         `json:"verdict"`
	Case     json.RawMessage `json:"case"`
	Trace    []string        `json:"trace,omitempty"`
	Note     string          `json:"note,omitempty"`
}

// WriteReplay stores a replay file under /verif/replays and returns its path.
func WriteReplay(r *Replay) string {
	dir := filepath.Join(VerifDir(), "replays")
	os.MkdirAll(dir, 0777)
	name := fmt.Sprintf("%s-s%d-c%d-%s.json", r.Property, r.Seed, r.Index, sanitize(r.Verdict.Clause+"_"+r.Verdict.Disc))
	p := filepath.Join(dir, name)
	data, _ := json.MarshalIndent(r, "", " ")
	if err := os.WriteFile(p, append(data, '\n'), 0666); err != nil {
		Infra("replay file: %v", err)
	}
	return p
}

func sanitize(s string) string {
	var sb strings.Builder
	for _, r := range s {
		if r >= 'a' && r <= 'z' || r >= 'A' && r <= 'Z' || r >= '0' && r <= '9' || r == '.' || r == '-' {
			sb.WriteRune(r)
		} else {
			sb.WriteByte('_')
		}
	}
	return sb.String()
}

// ReadReplay loads a replay file.
func ReadReplay(path string) *Replay {
	data, err := os.ReadFile(path)
	if err != nil {
		Infra("replay: %v", err)
	}
	r := new(Replay)
	if err := json.Unmarshal(data, r); err != nil {
		Infra("replay: %v", err)
	}
	return r
}

// ---------------------------------------------------------------- misc

// Counter is a concurrency-safe string counter.
type Counter struct {
	mu sync.Mutex
	m  map[string]int
}

// Add increments key by n.
func (c *Counter) Add(key string, n int) {
	c.mu.Lock()
	if c.m == nil {
		c.m = map[string]int{}
	}
	c.m[key] += n
	c.mu.Unlock()
}

// Get returns the count of key.
func (c *Counter) Get(key string) int {
	c.mu.Lock()
	defer c.mu.Unlock()
	return c.m[key]
}

// Map returns a copy.
func (c *Counter) Map() map[string]int {
	c.mu.Lock()
	defer c.mu.Unlock()
	out := make(map[string]int, len(c.m))
	for k, v := range c.m {
		out[k] = v
	}
	return out
}

// Set is a concurrency-safe string set.
type Set struct {
	mu sync.Mutex
	m  map[string]struct{}
}

// Add inserts s and reports whether it was new.
func (s *Set) Add(k string) bool {
	s.mu.Lock()
	defer s.mu.Unlock()
	if s.m == nil {
		s.m = map[string]struct{}{}
	}
	if _, ok := s.m[k]; ok {
		return false
	}
	s.m[k] = struct{}{}
	return true
}

// Len returns the number of members.
func (s *Set) Len() int {
	s.mu.Lock()
	defer s.mu.Unlock()
	return len(s.m)
}

// Sorted returns the members in order.
func (s *Set) Sorted() []string {
	s.mu.Lock()
	defer s.mu.Unlock()
	out := make([]string, 0, len(s.m))
	for k := range s.m {
		out = append(out, k)
	}
	sort.Strings(out)
	return out
}

// ParallelMap runs f(i) for i in [0,n) on a worker pool; results are in index order.
func ParallelMap[T any](n, workers int, f func(i int) T) []T {
	out := make([]T, n)
	var wg sync.WaitGroup
	ch := make(chan int)
	if workers > n {
		workers = n
	}
	for w := 0; w < workers; w++ {
		wg.Add(1)
		go func() {
			defer wg.Done()
			for i := range ch {
				out[i] = f(i)
			}
		}()
	}
	for i := 0; i < n; i++ {
		ch <- i
	}
	close(ch)
	wg.Wait()
	return out
}

// Deadline helps batches stop at a wall-clock budget.
type Deadline struct{ t time.Time }

// NewDeadline returns a deadline d from now.
func NewDeadline(d time.Duration) Deadline { return Deadline{time.Now().Add(d)} }

// Passed reports whether the budget is used up.
func (d Deadline) Passed() bool { return time.Now().After(d.t) }

// ---------------------------------------------------------------- reporting

// Found is one violation found by an engine, ready to be reported.
type Found struct {
	Verdict Verdict
	Index   int
	Case    interface{} // JSON-serialisable (minimised) case
	Trace   []string
	Note    string
}

// Report prints KNOWN-FINDING / VIOLATION lines for the violations of
// property prop and returns the number of unlisted violations. At most one
// line per violation key is printed.
func Report(prop, engine string, seed uint64, found []Found) (unlisted int, known int) {
	findings := LoadFindings()
	seen := map[string]bool{}
	for _, f := range found {
		if f.Verdict.Property != prop {
			continue
		}
		k := f.Verdict.Key()
		if seen[k] {
			continue
		}
		seen[k] = true
		if kf := KnownOpen(findings, prop, k); kf != nil {
			fmt.Printf("KNOWN-FINDING: %s\n", kf.Text)
			known++
			continue
		}
		raw, _ := json.Marshal(f.Case)
		path := WriteReplay(&Replay{Property: prop, Engine: engine, Seed: seed, Index: f.Index, Verdict: f.Verdict, Case: raw, Trace: f.Trace, Note: f.Note})
		fmt.Printf("violated clause %s: expected %s, observed %s (%s)\n", k, f.Verdict.Expected, f.Verdict.Observed, f.Verdict.Detail)
		fmt.Printf("VIOLATION property=%s replay=%s\n", prop, path)
		unlisted++
	}
	return unlisted, known
}

// CasesOverride returns VERIF_CASES if set (used by the determinism self-test), else n.
func CasesOverride(n int) int {
	if s := os.Getenv("VERIF_CASES"); s != "" {
		if v, err := strconv.Atoi(s); err == nil && v > 0 {
			return v
		}
	}
	return n
}

// WriteRunLog writes the canonical per-case log of a batch to VERIF_LOG, if set.
func WriteRunLog(lines []string) {
	p := os.Getenv("VERIF_LOG")
	if p == "" {
		return
	}
	os.WriteFile(p, []byte(strings.Join(lines, "\n")+"\n"), 0666)
}
