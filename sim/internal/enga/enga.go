// Package enga is engine A: the injector-runtime fault simulator (C03, C04).
// It runs the injectors that the working tree's wire generates, with provider
// bodies owned by the simulator, under every single-provider failure point and
// under seeded call histories mixing failures and successes.
package enga

import (
	"bytes"
	"crypto/sha256"
	"encoding/hex"
	"encoding/json"
	"fmt"
	"math/rand/v2"
	"os"
	"os/exec"
	"path/filepath"
	"sort"
	"strings"
	"time"

	"verif/sim/internal/common"
	"verif/sim/internal/progen"
	"verif/sim/internal/world"
)

// StepPlan mirrors simrt.StepPlan.
type StepPlan struct {
	Inj    string `json:"inj"`
	Fail   []int  `json:"fail,omitempty"`
	Poison bool   `json:"poison,omitempty"`
}

// Case is one replayable unit: a module and what to run on it.
type Case struct {
	Module    *progen.Module `json:"module"`
	Iter      string         `json:"iter"`              // iteration schedule of the wire gen process
	Enumerate bool           `json:"enumerate"`         // enumerate every single failure point of every injector
	Histories [][]StepPlan   `json:"histories"`         // seeded call histories (each also run as its twin without the failed steps)
	Only      string         `json:"only,omitempty"`    // restrict enumeration to one injector (minimised cases)
}

// Event mirrors simrt.Event.
type Event struct {
	Seq   int     `json:"q"`
	Step  int     `json:"s"`
	Kind  string  `json:"k"`
	Prov  int     `json:"p"`
	ID    int     `json:"i"`
	Args  [][]int `json:"a"`
	IDs   []int   `json:"ids"`
	Fail  bool    `json:"fail"`
	Zero  bool    `json:"zero"`
	HasC  bool    `json:"hasc"`
	CNil  bool    `json:"cnil"`
	HasE  bool    `json:"hase"`
	ENil  bool    `json:"enil"`
	ESame bool    `json:"esame"`
	Note  string  `json:"note"`
}

// Stats of a batch.
type Stats struct {
	Counts   common.Counter
	Shapes03 common.Set // distinct (shape, k, poison) with >= 1 cleanup to unwind
	Shapes04 common.Set // distinct injector shapes with >= 2 cleanups on the success path
	Execs    common.Counter
}

// Outcome of one case.
type Outcome struct {
	Verdicts []common.Verdict
	Log      []string
	Infra    string
	Skipped  string // workload unusable: why
	Execs    int    // injector executions
	Points   int    // enumerated failure points
}

type provInfo struct {
	hasErr, hasCleanup bool
	kind               string
	name               string
}

type runner struct {
	b     *common.Build
	st    *Stats
	c     *Case
	w     *world.World
	dir   string
	provs map[int]provInfo
	out   *Outcome
}

func (r *runner) logf(format string, a ...interface{}) {
	r.out.Log = append(r.out.Log, fmt.Sprintf(format, a...))
}

func (r *runner) violate(prop, clause, disc, exp, obs, detail string) {
	r.out.Verdicts = append(r.out.Verdicts, common.Verdict{Property: prop, Clause: clause, Disc: disc, Expected: exp, Observed: obs, Detail: detail})
	r.logf("  VERDICT %s %s/%s expected=%s observed=%s %s", prop, clause, disc, exp, obs, detail)
}

// RunCase generates, builds and executes one case in dir.
func RunCase(b *common.Build, st *Stats, c *Case, dir string) *Outcome {
	r := &runner{b: b, st: st, c: c, dir: dir, out: &Outcome{}, provs: map[int]provInfo{}}
	m := c.Module
	for _, t := range m.Types {
		if t.Src.Kind == "func" {
			r.provs[t.Src.ProvID] = provInfo{hasErr: t.Src.HasErr, hasCleanup: t.Src.HasCleanup, kind: t.Kind, name: t.Src.Name}
		}
	}
	if len(m.Injectors) == 0 {
		r.out.Skipped = "no injectors"
		return r.out
	}
	app, ext := m.Files(true)
	w, err := world.New(filepath.Join(dir, "w"), world.LayoutMod, "", b.MarkerGo, app, ext...)
	if err != nil {
		r.out.Infra = "world: " + err.Error()
		return r.out
	}
	r.w = w
	iter := c.Iter
	if iter == "" {
		iter = "asc"
	}
	res := w.Exec(b.WireSim, w.AppDir, &world.Plan{Seed: 1, Iter: iter, Clock: 1700000000, Pid: 1, Host: "h"}, dir, nil, "gen", "./...")
	if res.TimedOut {
		r.out.Infra = "watchdog: wire gen timed out"
		return r.out
	}
	if res.Exit != 0 {
		r.out.Skipped = "rejected_by_wire: " + firstLines(w.Scrub(res.Stderr), 6)
		return r.out
	}
	// build the driver with the real Go compiler
	bin := filepath.Join(dir, "driver.bin")
	cmd := exec.Command("go", "build", "-o", bin, "./driver")
	cmd.Dir = w.AppDir
	cmd.Env = w.Env()
	if outb, err := cmd.CombinedOutput(); err != nil {
		r.out.Skipped = "generated_code_does_not_compile: " + firstLines(w.Scrub(string(outb)), 8)
		return r.out
	}

	// 1. fault-free run of every injector
	var ff []StepPlan
	var injs []*progen.Injector
	for _, inj := range m.Injectors {
		if c.Only != "" && m.InjKey(inj) != c.Only {
			continue
		}
		injs = append(injs, inj)
		ff = append(ff, StepPlan{Inj: m.InjKey(inj)})
	}
	evs, infra := r.exec(bin, ff)
	if infra != "" {
		r.out.Infra = infra
		return r.out
	}
	steps := splitSteps(evs, len(ff))
	errCalls := make([]int, len(ff))
	for i, se := range steps {
		r.judgeStep(ff[i], se, "first-call")
		for _, e := range se {
			if e.Kind == "call" && r.provs[e.Prov].hasErr {
				errCalls[i]++
			}
		}
		r.probeSuccess(injs[i], se)
	}

	// 2. every single failure point, with both poison modes
	if c.Enumerate {
		var plan []StepPlan
		for i, inj := range injs {
			for k := 1; k <= errCalls[i]; k++ {
				for _, poison := range []bool{false, true} {
					plan = append(plan, StepPlan{Inj: m.InjKey(inj), Fail: []int{k}, Poison: poison})
				}
			}
		}
		if len(plan) > 0 {
			evs, infra := r.exec(bin, plan)
			if infra != "" {
				r.out.Infra = infra
				return r.out
			}
			for i, se := range splitSteps(evs, len(plan)) {
				r.judgeStep(plan[i], se, "enumeration")
				r.out.Points++
			}
		}
	}

	// 3. histories and their twins without the failed steps
	for hi, h := range c.Histories {
		evs, infra := r.exec(bin, h)
		if infra != "" {
			r.out.Infra = infra
			return r.out
		}
		hs := splitSteps(evs, len(h))
		var twin []StepPlan
		var succ [][]Event
		failedBefore := false
		for i, se := range hs {
			tag := fmt.Sprintf("history %d step %d", hi, i)
			if failedBefore && !stepFailed(se) {
				tag += " (success after failure)"
				r.st.Counts.Add("probe_success_after_failure", 1)
			}
			r.judgeStep(h[i], se, tag)
			if stepFailed(se) {
				failedBefore = true
			} else {
				twin = append(twin, StepPlan{Inj: h[i].Inj})
				succ = append(succ, se)
			}
		}
		if len(twin) > 0 && len(twin) < len(h) {
			tev, infra := r.exec(bin, twin)
			if infra != "" {
				r.out.Infra = infra
				return r.out
			}
			ts := splitSteps(tev, len(twin))
			a, bb := canonical(succ), canonical(ts)
			if a != bb {
				r.violate("C03", "C03.g", "failed-call-leaves-state", "successful steps observe the same as in the history without the failed steps", "observations differ", fmt.Sprintf("history %d: %s | with failures: %s | without: %s", hi, fmtPlan(h), clip(a, 600), clip(bb, 600)))
			} else {
				r.st.Counts.Add("twin_histories_equal", 1)
			}
		}
	}
	return r.out
}

func fmtPlan(h []StepPlan) string {
	var ss []string
	for _, s := range h {
		x := s.Inj
		if len(s.Fail) > 0 {
			x += fmt.Sprintf("!%v", s.Fail)
			if s.Poison {
				x += "p"
			}
		}
		ss = append(ss, x)
	}
	return strings.Join(ss, " ; ")
}

func clip(s string, n int) string {
	if len(s) > n {
		return s[:n] + "..."
	}
	return s
}

func firstLines(s string, n int) string {
	lines := strings.Split(strings.TrimSpace(s), "\n")
	if len(lines) > n {
		lines = append(lines[:n], "...")
	}
	return strings.Join(lines, " | ")
}

func (r *runner) exec(bin string, plan []StepPlan) ([]Event, string) {
	data, _ := json.Marshal(plan)
	pf, err := os.CreateTemp(r.dir, "steps-*.json")
	if err != nil {
		return nil, err.Error()
	}
	pf.Write(data)
	pf.Close()
	defer os.Remove(pf.Name())
	cmd := exec.Command(bin, pf.Name())
	cmd.Dir = r.dir
	var so, se bytes.Buffer
	cmd.Stdout, cmd.Stderr = &so, &se
	done := make(chan error, 1)
	if err := cmd.Start(); err != nil {
		return nil, "driver: " + err.Error()
	}
	go func() { done <- cmd.Wait() }()
	select {
	case err := <-done:
		if err != nil {
			return nil, "driver failed: " + err.Error() + ": " + firstLines(se.String(), 5)
		}
	case <-time.After(60 * time.Second):
		cmd.Process.Kill()
		return nil, "watchdog: driver timed out"
	}
	{
		h := sha256.Sum256(so.Bytes())
		r.logf("driver run: %d steps, history digest %s", len(plan), hex.EncodeToString(h[:8]))
	}
	r.st.Execs.Add("driver_processes", 1)
	r.st.Execs.Add("injector_executions", len(plan))
	r.out.Execs += len(plan)
	var evs []Event
	dec := json.NewDecoder(&so)
	for dec.More() {
		var e Event
		if err := dec.Decode(&e); err != nil {
			return nil, "driver output: " + err.Error()
		}
		evs = append(evs, e)
	}
	return evs, ""
}

func splitSteps(evs []Event, n int) [][]Event {
	out := make([][]Event, n)
	for _, e := range evs {
		if e.Step >= 0 && e.Step < n {
			out[e.Step] = append(out[e.Step], e)
		}
	}
	return out
}

func stepFailed(se []Event) bool {
	for _, e := range se {
		if e.Kind == "call" && e.Fail {
			return true
		}
	}
	return false
}

// canonical renders the observations of steps with identities renamed by first occurrence.
func canonical(steps [][]Event) string {
	ren := map[int]int{}
	id := func(x int) int {
		if x == 0 {
			return 0
		}
		if v, ok := ren[x]; ok {
			return v
		}
		ren[x] = len(ren) + 1
		return ren[x]
	}
	var sb strings.Builder
	for _, se := range steps {
		for _, e := range se {
			fmt.Fprintf(&sb, "%s p%d #%d", e.Kind, e.Prov, id(e.ID))
			for _, a := range e.Args {
				sb.WriteString(" (")
				for _, x := range a {
					fmt.Fprintf(&sb, "%d,", id(x))
				}
				sb.WriteString(")")
			}
			if len(e.IDs) > 0 {
				sb.WriteString(" ids[")
				for _, x := range e.IDs {
					fmt.Fprintf(&sb, "%d,", id(x))
				}
				sb.WriteString("]")
			}
			if e.Kind == "return" {
				fmt.Fprintf(&sb, " zero=%v cnil=%v enil=%v", e.Zero, e.CNil, e.ENil)
			}
			if e.Kind == "begin" || e.Kind == "panic" {
				sb.WriteString(" " + e.Note)
			}
			sb.WriteString("; ")
		}
		sb.WriteString("\n")
	}
	return sb.String()
}

func seqString(xs []int) string {
	var ss []string
	for _, x := range xs {
		ss = append(ss, fmt.Sprint(x))
	}
	return "[" + strings.Join(ss, " ") + "]"
}

// judgeStep evaluates the clauses of C03 (failed invocation) or C04 (successful one).
func (r *runner) judgeStep(sp StepPlan, se []Event, tag string) {
	var calls []Event
	var ret *Event
	failIdx := -1
	invokeSeq, returnedSeq := 0, 0
	panicNote := ""
	for i := range se {
		e := se[i]
		switch e.Kind {
		case "call":
			if e.Fail && failIdx < 0 {
				failIdx = len(calls)
			}
			calls = append(calls, e)
		case "return":
			ret = &se[i]
		case "invoke-cleanup":
			invokeSeq = e.Seq
		case "cleanup-returned":
			returnedSeq = e.Seq
		case "panic":
			panicNote = e.Note
		}
	}
	where := fmt.Sprintf("%s fail=%v poison=%v (%s)", sp.Inj, sp.Fail, sp.Poison, tag)
	if panicNote != "" {
		prop := "C04"
		if failIdx >= 0 {
			prop = "C03"
		}
		r.violate(prop, prop+".x", "injector-panics", "no panic", "panic: "+clip(panicNote, 120), where)
		return
	}
	if ret == nil {
		r.out.Infra = "driver recorded no return for " + where
		return
	}
	// cleanup-like events in order, with their sequence numbers
	type cev struct {
		seq  int
		id   int // provider-call identity, -1 poison, -2 decoy
		kind string
	}
	var cleans []cev
	for _, e := range se {
		switch e.Kind {
		case "cleanup":
			cleans = append(cleans, cev{e.Seq, e.ID, "cleanup"})
		case "poison-cleanup":
			cleans = append(cleans, cev{e.Seq, -1, "poison"})
		case "decoy-cleanup":
			cleans = append(cleans, cev{e.Seq, -2, "decoy"})
		}
	}
	if failIdx >= 0 {
		// ---------------------------------------------------------------- C03
		f := calls[failIdx]
		nClean := 0
		var want []int
		for i := failIdx - 1; i >= 0; i-- {
			if r.provs[calls[i].Prov].hasCleanup {
				want = append(want, calls[i].ID)
				nClean++
			}
		}
		r.st.Counts.Add("failed_invocations_judged", 1)
		if nClean >= 1 {
			r.st.Shapes03.Add(fmt.Sprintf("%s|k=%v|p=%v", shapeOf(calls, r.provs), sp.Fail, sp.Poison))
		}
		switch {
		case nClean >= 10:
			r.st.Counts.Add("probe_unwind_10_or_more_cleanups", 1)
			fallthrough
		case nClean >= 3:
			r.st.Counts.Add("probe_unwind_3_or_more_cleanups", 1)
			fallthrough
		case nClean >= 2:
			r.st.Counts.Add("probe_unwind_2_or_more_cleanups", 1)
		}
		if failIdx == 0 {
			r.st.Counts.Add("probe_failure_at_first_call", 1)
		}
		r.st.Counts.Add("probe_error_path_result_kind_"+r.resultKind(sp.Inj), 1)
		if !ret.HasE || ret.ENil || !ret.ESame {
			obs := "a different error: " + clip(ret.Note, 80)
			if ret.ENil {
				obs = "nil error"
			}
			r.violate("C03", "C03.a", "returns-other-error", "the failing provider's own error value", obs, where)
		}
		if !ret.Zero {
			disc := "non-zero-result-on-error"
			if r.resultKind(sp.Inj) == "bool" && r.injPkgHasDecoy(sp.Inj, "falseconst") {
				// the generated `return false, ...` names the package's own constant: an open finding of its own
				disc += "/bool-result-in-a-package-that-redeclares-false"
			}
			r.violate("C03", "C03.b", disc, "zero value", "non-zero value", where)
		}
		if ret.HasC && !ret.CNil {
			r.violate("C03", "C03.c", "non-nil-cleanup-on-error", "nil cleanup", "non-nil cleanup", where)
		}
		if len(calls) > failIdx+1 {
			r.violate("C03", "C03.d", "calls-provider-after-failure", "no provider call after the failing one", fmt.Sprintf("%d more call(s), first: %s", len(calls)-failIdx-1, r.provs[calls[failIdx+1].Prov].name), where)
		}
		for _, c := range cleans {
			if c.kind == "poison" {
				r.violate("C03", "C03.f", "calls-failing-providers-own-cleanup", "the failing provider's cleanup result is not called", "it was called", where)
				break
			}
		}
		var got []int
		early := false
		for _, c := range cleans {
			if c.kind == "poison" {
				continue
			}
			if c.seq < f.Seq {
				early = true
			}
			if c.seq < ret.Seq {
				got = append(got, c.id)
			} else {
				early = true // after the return: somebody kept calling
			}
		}
		if seqString(got) != seqString(want) || early {
			disc := "unwind-wrong"
			switch {
			case early:
				disc = "cleanup-outside-the-error-branch"
			case len(got) < len(want):
				disc = "unwind-skips-cleanups"
			case len(got) > len(want):
				disc = "unwind-calls-too-many"
			case len(got) == len(want):
				disc = "unwind-wrong-order"
			}
			r.violate("C03", "C03.e", disc, "cleanups of "+seqString(want)+" (reverse acquisition order, once each)", seqString(got), where)
		}
		return
	}
	// -------------------------------------------------------------------- C04
	r.st.Counts.Add("successful_invocations_judged", 1)
	if ret.HasE && !ret.ENil {
		r.st.Counts.Add("error_without_injected_failure_not_judged", 1)
		return
	}
	var want []int
	for i := len(calls) - 1; i >= 0; i-- {
		if r.provs[calls[i].Prov].hasCleanup {
			want = append(want, calls[i].ID)
		}
	}
	if len(want) >= 2 {
		r.st.Shapes04.Add(shapeOf(calls, r.provs))
	}
	if len(want) >= 10 {
		r.st.Counts.Add("probe_success_10_or_more_cleanups", 1)
	}
	if !ret.HasC {
		if len(cleans) > 0 {
			r.violate("C04", "C04.b", "cleanup-runs-without-being-asked", "no cleanup event", fmt.Sprintf("%d event(s)", len(cleans)), where)
		}
		return
	}
	if len(want) == 0 {
		r.st.Counts.Add("probe_cleanup_result_with_nothing_to_clean", 1)
	}
	if ret.CNil {
		r.violate("C04", "C04.a", "nil-cleanup-on-success", "non-nil function", "nil", where+fmt.Sprintf(" cleanups=%d", len(want)))
		return
	}
	var got []int
	early, late := false, false
	for _, c := range cleans {
		switch {
		case c.seq < invokeSeq:
			early = true
		case returnedSeq > 0 && c.seq > returnedSeq:
			late = true
		default:
			got = append(got, c.id)
		}
	}
	if early {
		r.violate("C04", "C04.b", "cleanup-before-caller-asks", "no cleanup before the caller invokes the returned function", "a provider cleanup ran earlier", where)
	}
	_ = late
	if seqString(got) != seqString(want) {
		disc := "wrong-order"
		switch {
		case len(got) < len(want):
			disc = "skips-cleanups"
		case len(got) > len(want):
			disc = "calls-too-many"
		}
		r.violate("C04", "C04.c", "aggregate-cleanup-"+disc, "cleanups of "+seqString(want)+" (exact reverse of run order, once each)", seqString(got), where)
	}
	// C04.d: a provider's cleanup runs before the cleanup of anything it was observed to be built from
	producer := map[int]int{} // identity -> index of producing call
	for i, c := range calls {
		producer[c.ID] = i
	}
	for _, e := range se {
		if e.Kind == "sub" && len(e.IDs) > 0 {
			if p, ok := producer[e.IDs[0]]; ok {
				producer[e.ID] = p
			}
		}
	}
	built := make([]map[int]bool, len(calls)) // transitive: call i was built from calls built[i]
	for i, c := range calls {
		built[i] = map[int]bool{}
		for _, a := range c.Args {
			for _, id := range a {
				if p, ok := producer[id]; ok && p < i {
					built[i][p] = true
					for q := range built[p] {
						built[i][q] = true
					}
				}
			}
		}
	}
	pos := map[int]int{}
	for i, id := range got {
		if _, dup := pos[id]; !dup {
			pos[id] = i
		}
	}
	for i := range calls {
		if !r.provs[calls[i].Prov].hasCleanup {
			continue
		}
		for q := range built[i] {
			if !r.provs[calls[q].Prov].hasCleanup {
				continue
			}
			pi, ok1 := pos[calls[i].ID]
			pq, ok2 := pos[calls[q].ID]
			if ok1 && ok2 && pi > pq {
				r.violate("C04", "C04.d", "dependency-cleaned-before-dependent", fmt.Sprintf("cleanup of %s before cleanup of %s (it was built from it)", r.provs[calls[i].Prov].name, r.provs[calls[q].Prov].name), "the other way round", where)
				return
			}
			if ok1 && ok2 {
				r.st.Counts.Add("dependency_pairs_checked", 1)
			}
		}
	}
}

func (r *runner) injPkgHasDecoy(key, decoy string) bool {
	for _, inj := range r.c.Module.Injectors {
		if r.c.Module.InjKey(inj) == key {
			return progen.HasDecoy(r.c.Module.Pkgs[inj.Pkg], decoy)
		}
	}
	return false
}

func (r *runner) resultKind(key string) string {
	for _, inj := range r.c.Module.Injectors {
		if r.c.Module.InjKey(inj) == key {
			t := r.c.Module.Types[inj.Result.Idx]
			if inj.Result.Ptr {
				return "ptr"
			}
			return t.Kind
		}
	}
	return "?"
}

func (r *runner) probeSuccess(inj *progen.Injector, se []Event) {
	if inj.DeclCleanup && !inj.DeclErr {
		r.st.Counts.Add("probe_injector_with_cleanup_but_no_error_result", 1)
	}
	kinds := map[string]bool{}
	for _, t := range r.c.Module.Types {
		kinds[t.Src.Kind] = true
	}
	_ = kinds
}

func shapeOf(calls []Event, provs map[int]provInfo) string {
	h := sha256.New()
	for _, c := range calls {
		p := provs[c.Prov]
		fmt.Fprintf(h, "%s/%v/%v/%d;", p.kind, p.hasErr, p.hasCleanup, len(c.Args))
	}
	return hex.EncodeToString(h.Sum(nil)[:8])
}

// GenCase draws a case.
func GenCase(r *rand.Rand, thorough bool) *Case {
	k := progen.RandomKnobs(r, thorough && r.IntN(3) == 0)
	// engine A wants error/cleanup-heavy programs
	if r.IntN(3) == 0 {
		k.ErrPct, k.CleanupPct = 90, 100
	}
	if r.IntN(6) == 0 {
		k.Chain = true
		k.NTypes = 14 + r.IntN(16)
		k.CleanupPct = 100
		k.ArgPct = 0
	}
	m := progen.Generate(r, k)
	c := &Case{Module: m, Enumerate: true}
	c.Iter = []string{"asc", "desc", fmt.Sprintf("shuffle:%d", r.IntN(1000))}[r.IntN(3)]
	if len(m.Injectors) == 0 {
		return c
	}
	nh := 2 + r.IntN(3)
	for h := 0; h < nh; h++ {
		n := 2 + r.IntN(7)
		var hist []StepPlan
		for i := 0; i < n; i++ {
			inj := m.Injectors[r.IntN(len(m.Injectors))]
			sp := StepPlan{Inj: m.InjKey(inj)}
			if inj.NeedErrs > 0 && r.IntN(2) == 0 {
				sp.Fail = []int{1 + r.IntN(inj.NeedErrs)}
				if r.IntN(5) == 0 {
					sp.Fail = append(sp.Fail, 1+r.IntN(inj.NeedErrs))
					sort.Ints(sp.Fail)
				}
				sp.Poison = r.IntN(2) == 0
			}
			hist = append(hist, sp)
		}
		c.Histories = append(c.Histories, hist)
	}
	return c
}
