package enga

import (
	"encoding/json"
	"fmt"
	"os"
	"path/filepath"
	"sort"
	"strings"
	"time"

	"verif/sim/internal/common"
)

func sizes(tier string) (int, time.Duration) {
	if tier == "thorough" {
		return 2600, 40 * time.Minute
	}
	return 200, 8 * time.Minute
}

func clone(c *Case) *Case {
	data, _ := json.Marshal(c)
	out := new(Case)
	json.Unmarshal(data, out)
	return out
}

func hasKey(vs []common.Verdict, prop, key string) *common.Verdict {
	for i := range vs {
		if vs[i].Property == prop && vs[i].Key() == key {
			return &vs[i]
		}
	}
	return nil
}

// injectorOf extracts the injector key from a verdict's detail ("<key> fail=...").
func injectorOf(v common.Verdict) string {
	f := strings.Fields(v.Detail)
	if len(f) > 0 && strings.Contains(f[0], ".") && !strings.HasPrefix(f[0], "history") {
		return f[0]
	}
	return ""
}

func minimise(b *common.Build, st *Stats, c *Case, prop, key string, scratch string) (*Case, *common.Verdict, []string) {
	n := 0
	try := func(cand *Case) (*common.Verdict, []string) {
		n++
		dir, _ := os.MkdirTemp(scratch, "min-")
		defer os.RemoveAll(dir)
		out := RunCase(b, st, cand, dir)
		if out.Infra != "" || out.Skipped != "" {
			return nil, nil
		}
		return hasKey(out.Verdicts, prop, key), out.Log
	}
	best := c
	v, log := try(best)
	if v == nil {
		return nil, nil, nil
	}
	if !strings.HasPrefix(key, "C03.g") {
		// one injector, no histories
		if inj := injectorOf(*v); inj != "" {
			cand := clone(best)
			cand.Only = inj
			cand.Histories = nil
			if v2, l2 := try(cand); v2 != nil {
				best, v, log = cand, v2, l2
				// prune the module to what this injector needs
				cand2 := clone(best)
				for _, in := range cand2.Module.Injectors {
					if cand2.Module.InjKey(in) == inj {
						cand2.Module.PruneTo(in)
						break
					}
				}
				if v3, l3 := try(cand2); v3 != nil {
					best, v, log = cand2, v3, l3
				}
			} else {
				// only visible in a history: keep histories, drop the enumeration
				cand := clone(best)
				cand.Enumerate = false
				if v2, l2 := try(cand); v2 != nil {
					best, v, log = cand, v2, l2
				}
			}
		}
	} else {
		cand := clone(best)
		cand.Enumerate = false
		if v2, l2 := try(cand); v2 != nil {
			best, v, log = cand, v2, l2
		}
	}
	// fewer histories, shorter histories
	for hi := len(best.Histories) - 1; hi >= 0 && n < 40; hi-- {
		cand := clone(best)
		cand.Histories = append(cand.Histories[:hi], cand.Histories[hi+1:]...)
		if v2, l2 := try(cand); v2 != nil {
			best, v, log = cand, v2, l2
		}
	}
	for hi := range best.Histories {
		for si := len(best.Histories[hi]) - 1; si >= 0 && n < 60; si-- {
			if len(best.Histories[hi]) <= 1 {
				break
			}
			cand := clone(best)
			h := cand.Histories[hi]
			cand.Histories[hi] = append(h[:si], h[si+1:]...)
			if v2, l2 := try(cand); v2 != nil {
				best, v, log = cand, v2, l2
			}
		}
	}
	if best.Iter != "asc" && n < 62 {
		cand := clone(best)
		cand.Iter = "asc"
		if v2, l2 := try(cand); v2 != nil {
			best, v, log = cand, v2, l2
		}
	}
	return best, v, log
}

// Check runs a batch for C03 or C04.
func Check(prop, tier string) int {
	start := time.Now()
	seed := common.Seed()
	fmt.Printf("VERIF_SEED=%d property=%s tier=%s engine=A (injector-runtime fault simulator)\n", seed, prop, tier)
	b := common.Prepare(prop, false)
	st := &Stats{}
	n, budget := sizes(tier)
	n = common.CasesOverride(n)
	deadline := common.NewDeadline(budget)
	scratch := filepath.Join(b.Root, "cases")
	os.MkdirAll(scratch, 0777)
	type result struct {
		c   *Case
		out *Outcome
	}
	results := common.ParallelMap(n, common.Workers(), func(i int) result {
		if deadline.Passed() {
			return result{}
		}
		c := GenCase(common.Rng(seed, i), tier == "thorough")
		dir := filepath.Join(scratch, fmt.Sprintf("c%d", i))
		os.MkdirAll(dir, 0777)
		defer os.RemoveAll(dir)
		return result{c, RunCase(b, st, c, dir)}
	})
	var found []common.Found
	ran, usable, execs, points := 0, 0, 0, 0
	skipped := map[string]int{}
	var skipSamples []string
	var samples []interface{}
	for i, r := range results {
		if r.c == nil {
			continue
		}
		ran++
		if r.out.Infra != "" {
			writeEvidence(prop, tier, seed, start, st, ran, usable, execs, points, skipped, samples, 0, b, "infrastructure trouble: "+r.out.Infra)
			common.Infra("case %d: %s", i, r.out.Infra)
		}
		if r.out.Skipped != "" {
			k := strings.SplitN(r.out.Skipped, ":", 2)[0]
			skipped[k]++
			if len(skipSamples) < 5 && k != "no injectors" {
				skipSamples = append(skipSamples, fmt.Sprintf("case %d: %s", i, r.out.Skipped))
			}
			continue
		}
		usable++
		execs += r.out.Execs
		points += r.out.Points
		if len(samples) < 3 {
			var inj []string
			for _, in := range r.c.Module.Injectors {
				inj = append(inj, fmt.Sprintf("%s(cleanups=%d,errs=%d)", r.c.Module.InjKey(in), in.NeedCleanups, in.NeedErrs))
			}
			var hs []string
			for _, h := range r.c.Histories {
				hs = append(hs, fmtPlan(h))
			}
			samples = append(samples, map[string]interface{}{"case": i, "packages": len(r.c.Module.Pkgs), "types": len(r.c.Module.Types), "sets": len(r.c.Module.Sets), "wire_gen_iteration": r.c.Iter, "injectors": inj, "failure_points_enumerated": r.out.Points, "histories": hs})
		}
		for _, v := range r.out.Verdicts {
			if v.Property == prop {
				found = append(found, common.Found{Verdict: v, Index: i, Case: r.c, Trace: r.out.Log})
			}
		}
	}
	for _, s := range skipSamples {
		fmt.Println("skipped workload:", s)
	}
	if os.Getenv("VERIF_LOG") != "" {
		var lines []string
		for i, r := range results {
			if r.c == nil {
				continue
			}
			lines = append(lines, fmt.Sprintf("== case %d skipped=%q", i, r.out.Skipped))
			lines = append(lines, r.out.Log...)
		}
		common.WriteRunLog(lines)
	}
	if usable == 0 {
		writeEvidence(prop, tier, seed, start, st, ran, usable, execs, points, skipped, samples, 0, b, "no usable workload")
		common.Infra("no usable workload: %v", skipped)
	}
	if usable*2 < ran {
		writeEvidence(prop, tier, seed, start, st, ran, usable, execs, points, skipped, samples, 0, b, "most workloads unusable")
		common.Infra("more than half of the workloads are unusable (%v): the generator or wire's accept rules changed; no verdict", skipped)
	}
	findings := common.LoadFindings()
	sort.SliceStable(found, func(i, j int) bool { return found[i].Index < found[j].Index })
	seen := map[string]bool{}
	var reps []common.Found
	for _, f := range found {
		k := f.Verdict.Key()
		if seen[k] {
			continue
		}
		seen[k] = true
		if common.KnownOpen(findings, prop, k) == nil && len(reps) < 6 {
			mc, mv, mlog := minimise(b, st, f.Case.(*Case), prop, k, scratch)
			if mc == nil {
				writeEvidence(prop, tier, seed, start, st, ran, usable, execs, points, skipped, samples, 0, b, "a violation did not reproduce")
				common.Infra("violation %s of case %d did not reproduce when re-run: harness nondeterminism", k, f.Index)
			}
			f.Case, f.Verdict, f.Trace = mc, *mv, mlog
			f.Note = "minimised case (module spec + call histories); replay with ./check replay <this file>"
		}
		reps = append(reps, f)
	}
	unlisted, _ := common.Report(prop, "A", seed, reps)
	writeEvidence(prop, tier, seed, start, st, ran, usable, execs, points, skipped, samples, unlisted, b, "")
	fmt.Printf("%s: %d modules (%d usable, skipped %v), %d injector executions, %d enumerated failure points, %d unlisted violation(s), %.0fs\n",
		prop, ran, usable, skipped, execs, points, unlisted, time.Since(start).Seconds())
	if unlisted > 0 {
		return common.ExitViolation
	}
	return common.ExitOK
}

func writeEvidence(prop, tier string, seed uint64, start time.Time, st *Stats, ran, usable, execs, points int, skipped map[string]int, samples []interface{}, violations int, b *common.Build, note string) {
	wall := time.Since(start).Seconds()
	if samples == nil {
		samples = []interface{}{"(none: the run stopped before any case completed)"}
	}
	level := "fault_enumeration"
	distinct := st.Shapes03.Len()
	rule := "cases are seeded multi-package modules accepted by wire, compiled with the generated wire_gen.go; for every generated injector EVERY single-provider failure point (k-th error-capable call, k=1..m) is executed with both poison modes (failing provider returns zero companions / non-zero value + live cleanup), plus seeded call histories of 2-8 steps mixing failures and successes, each also run as its twin without the failed steps; evaluations = injector executions; distinct_nontrivial = distinct (injector shape digest, failing position k, poison mode) that had at least one acquired cleanup to unwind"
	if prop == "C04" {
		level = "exploration"
		distinct = st.Shapes04.Len()
		rule = "cases are seeded multi-package modules accepted by wire, compiled with the generated wire_gen.go; every generated injector is executed fault-free (the empty fault sequence) and inside seeded histories after failed calls; the driver plays the caller and invokes the returned cleanup once; evaluations = injector executions; distinct_nontrivial = distinct injector shapes (digest of the run-time call sequence) with at least two cleanup-returning providers, i.e. where an order can be wrong"
	}
	cov := map[string]interface{}{
		"evaluations":                 execs,
		"distinct_nontrivial":         distinct,
		"rule":                        rule,
		"samples":                     samples,
		"exhaustive":                  false,
		"modules_generated":           ran,
		"modules_usable":              usable,
		"modules_skipped":             skipped,
		"failure_points_enumerated":   points,
		"failure_points_exhaustive_per_injector": true,
		"runs_per_hour":               float64(usable) / wall * 3600,
		"injector_executions_per_hour": float64(execs) / wall * 3600,
		"simulated_time":              "none: generated injectors have no timers; progress is counted in provider calls",
		"fault_kinds_fired": map[string]int{
			"provider_returns_error":                      st.Counts.Get("failed_invocations_judged"),
			"success_after_failure_in_history":            st.Counts.Get("probe_success_after_failure"),
		},
		"reach_probes":     st.Counts.Map(),
		"process_counts":   st.Execs.Map(),
		"components":       common.Components("A"),
		"seam_sites":       len(b.Sites),
	}
	if note != "" {
		cov["note"] = note
	}
	common.WriteEvidence(&common.Evidence{
		PropertyID: prop, Tier: tier, Seed: int64(seed), Level: level, Coverage: cov,
		Assumptions: []string{
			"Go compiler, linker and runtime execute the generated code faithfully",
			"programs that wire rejects or whose output does not compile are no verdict for C03/C04 (counted as skipped)",
			"identity tracking: values carry the identity of the provider call that made them (bool and chan values carry none)",
		},
		WallS: wall, Violations: violations,
	})
}

// Replay re-runs a replay file's case.
func Replay(r *common.Replay) int {
	var c Case
	if err := json.Unmarshal(r.Case, &c); err != nil {
		common.Infra("replay: %v", err)
	}
	b := common.Prepare("replay", false)
	dir := filepath.Join(b.Root, "replay")
	os.MkdirAll(dir, 0777)
	out := RunCase(b, &Stats{}, &c, dir)
	if out.Infra != "" {
		common.Infra("%s", out.Infra)
	}
	if out.Skipped != "" {
		fmt.Println("workload unusable on this tree:", out.Skipped)
		return common.ExitInfra
	}
	for _, l := range out.Log {
		fmt.Println(l)
	}
	if v := hasKey(out.Verdicts, r.Property, r.Verdict.Key()); v != nil {
		fmt.Printf("reproduced: %s %s expected %s observed %s (%s)\n", v.Property, v.Key(), v.Expected, v.Observed, v.Detail)
		fmt.Printf("VIOLATION property=%s replay=%s\n", r.Property, os.Getenv("VERIF_REPLAY_PATH"))
		return common.ExitViolation
	}
	fmt.Printf("not reproduced: clause %s of %s holds on this tree\n", r.Verdict.Key(), r.Property)
	return common.ExitOK
}
