// Package instrument inserts the simulator's seams into a scratch copy of
// google/wire. It is type-driven (go/packages + go/types): it finds every
// range over a Go map, every typeutil.Map walk, every reflect map-key walk,
// every file-system call and every clock/identity read by *type*, wherever a
// change to wire moves or adds them, and rewrites the source text in place.
package instrument

import (
	_ "embed"
	"bytes"
	"fmt"
	"go/ast"
	"go/format"
	"go/token"
	"go/types"
	"os"
	"path/filepath"
	"sort"
	"strings"

	"golang.org/x/tools/go/packages"
)

//go:embed verifsim.go.txt
var verifsimSrc []byte

const (
	modPath   = "github.com/google/wire"
	simImport = modPath + "/internal/verifsim"
	simAlias  = "verifsim_"
)

// Site describes one seam found.
type Site struct {
	Kind string `json:"kind"`
	Name string `json:"name"`
	Pos  string `json:"pos"`
}

type edit struct {
	at   int // byte offset
	end  int // == at for pure insertions
	text string
	seq  int
}

// funcs replaced by name: package path -> func -> verifsim func
var funcSeams = map[string]map[string]string{
	"io/ioutil": {"ReadFile": "ReadFile", "WriteFile": "WriteFile", "TempFile": "CreateTemp"},
	"os": {"ReadFile": "ReadFile", "WriteFile": "WriteFile", "Getwd": "Getwd", "Open": "Open",
		"Create": "Create", "OpenFile": "OpenFile", "CreateTemp": "CreateTemp", "Rename": "Rename", "Remove": "Remove",
		"Getpid": "Getpid", "Hostname": "Hostname"},
	"time": {"Now": "Now"},
	// randomness a changed wire might start to use (temporary names, sampling): a plan-seeded stream
	"math/rand": {"Int": "RandInt", "Intn": "RandIntn", "Int31": "RandInt31", "Int31n": "RandInt31n", "Int63": "RandInt63", "Int63n": "RandInt63n",
		"Uint32": "RandUint32", "Uint64": "RandUint64", "Float64": "RandFloat64", "Float32": "RandFloat32", "Perm": "RandPerm", "Shuffle": "RandShuffle", "Seed": "RandSeed"},
	"crypto/rand": {"Read": "CryptoRead"},
}

// Run instruments the module rooted at dir (a scratch copy!) and returns the seams found.
func Run(dir string) ([]Site, error) {
	if err := os.MkdirAll(filepath.Join(dir, "internal", "verifsim"), 0777); err != nil {
		return nil, err
	}
	// make sure a stale copy does not get loaded
	os.Remove(filepath.Join(dir, "internal", "verifsim", "verifsim.go"))

	cfg := &packages.Config{
		Mode: packages.NeedName | packages.NeedFiles | packages.NeedCompiledGoFiles | packages.NeedSyntax |
			packages.NeedTypes | packages.NeedTypesInfo | packages.NeedImports | packages.NeedDeps,
		Dir: dir,
		Env: append(os.Environ(), "GOFLAGS=-mod=mod", "GOPROXY=off", "GOSUMDB=off", "GOTOOLCHAIN=local"),
	}
	pkgs, err := packages.Load(cfg, "./...")
	if err != nil {
		return nil, fmt.Errorf("instrument: load: %v", err)
	}
	var sites []Site
	for _, pkg := range pkgs {
		if len(pkg.Errors) > 0 {
			return nil, fmt.Errorf("instrument: package %s does not type-check: %v", pkg.PkgPath, pkg.Errors[0])
		}
		if pkg.PkgPath == modPath || pkg.PkgPath == simImport {
			continue // marker package: copied verbatim into worlds
		}
		if !strings.HasPrefix(pkg.PkgPath, modPath+"/") {
			continue
		}
		for i, f := range pkg.Syntax {
			name := pkg.CompiledGoFiles[i]
			s, err := rewriteFile(pkg, f, name)
			if err != nil {
				return nil, err
			}
			sites = append(sites, s...)
		}
	}
	if err := os.WriteFile(filepath.Join(dir, "internal", "verifsim", "verifsim.go"), verifsimSrc, 0666); err != nil {
		return nil, err
	}
	// generics + comparable interface keys need go 1.20 in the scratch copy's go.mod
	gm := filepath.Join(dir, "go.mod")
	data, err := os.ReadFile(gm)
	if err != nil {
		return nil, err
	}
	lines := strings.Split(string(data), "\n")
	done := false
	for i, l := range lines {
		if strings.HasPrefix(strings.TrimSpace(l), "go ") && !done {
			lines[i] = "go 1.20"
			done = true
		}
	}
	if !done {
		lines = append(lines, "go 1.20")
	}
	if err := os.WriteFile(gm, []byte(strings.Join(lines, "\n")), 0666); err != nil {
		return nil, err
	}
	sort.Slice(sites, func(i, j int) bool { return sites[i].Name < sites[j].Name })
	return sites, nil
}

func isTypeutilMap(t types.Type) bool {
	p, ok := t.(*types.Pointer)
	if !ok {
		return false
	}
	n, ok := p.Elem().(*types.Named)
	if !ok {
		return false
	}
	o := n.Obj()
	return o.Name() == "Map" && o.Pkg() != nil && strings.HasSuffix(o.Pkg().Path(), "golang.org/x/tools/go/types/typeutil")
}

func isNamed(t types.Type, pkg, name string) bool {
	if p, ok := t.(*types.Pointer); ok {
		t = p.Elem()
	}
	n, ok := t.(*types.Named)
	if !ok {
		return false
	}
	o := n.Obj()
	return o.Name() == name && o.Pkg() != nil && o.Pkg().Path() == pkg
}

// needsSerial reports whether map keys of type t have no value order.
func needsSerial(t types.Type) bool {
	switch u := t.Underlying().(type) {
	case *types.Basic:
		return false
	case *types.Struct:
		for i := 0; i < u.NumFields(); i++ {
			if needsSerial(u.Field(i).Type()) {
				return true
			}
		}
		return false
	case *types.Array:
		return needsSerial(u.Elem())
	}
	return true
}

func rewriteFile(pkg *packages.Package, f *ast.File, filename string) ([]Site, error) {
	src, err := os.ReadFile(filename)
	if err != nil {
		return nil, err
	}
	fset := pkg.Fset
	tf := fset.File(f.Pos())
	off := func(p token.Pos) int { return tf.Offset(p) }
	text := func(a, b token.Pos) string { return string(src[off(a):off(b)]) }
	info := pkg.TypesInfo

	var edits []edit
	seq := 0
	add := func(at, end token.Pos, s string) {
		seq++
		edits = append(edits, edit{at: off(at), end: off(end), text: s, seq: seq})
	}
	ins := func(at token.Pos, s string) { add(at, at, s) }

	var sites []Site
	keepAlive := map[string]bool{}
	base := filepath.Base(filename)

	// enclosing function names for site ids
	type span struct {
		a, b token.Pos
		name string
	}
	var spans []span
	for _, d := range f.Decls {
		if fd, ok := d.(*ast.FuncDecl); ok {
			n := fd.Name.Name
			if fd.Recv != nil && len(fd.Recv.List) > 0 {
				rt := fd.Recv.List[0].Type
				if s, ok := rt.(*ast.StarExpr); ok {
					rt = s.X
				}
				if id, ok := rt.(*ast.Ident); ok {
					n = id.Name + "." + n
				}
			}
			spans = append(spans, span{fd.Pos(), fd.End(), n})
		}
	}
	counter := map[string]int{}
	siteName := func(p token.Pos, kind string) string {
		fn := "_"
		for _, s := range spans {
			if s.a <= p && p < s.b {
				fn = s.name
			}
		}
		k := base + ":" + fn + ":" + kind
		counter[k]++
		return fmt.Sprintf("%s#%d", k, counter[k])
	}
	record := func(kind, name string, p token.Pos) {
		sites = append(sites, Site{Kind: kind, Name: name, Pos: fset.Position(p).String()})
	}
	nvar := 0

	ast.Inspect(f, func(n ast.Node) bool {
		switch n := n.(type) {
		case *ast.RangeStmt:
			t := info.TypeOf(n.X)
			if t == nil {
				return true
			}
			if _, ok := t.Underlying().(*types.Map); !ok {
				return true
			}
			nvar++
			ev := fmt.Sprintf("verifE%d_", nvar)
			name := siteName(n.Pos(), "range")
			record("iter-map", name, n.Pos())
			// header: "for [k, v :=|=] range X {"
			hdrStart := n.For + token.Pos(len("for"))
			add(hdrStart, n.X.Pos(), fmt.Sprintf(" _, %s := range %s.Entries(", ev, simAlias))
			ins(n.X.End(), fmt.Sprintf(", %q)", name))
			var lhs, rhs []string
			blank := func(e ast.Expr) bool {
				id, ok := e.(*ast.Ident)
				return e == nil || ok && id.Name == "_"
			}
			if !blank(n.Key) {
				lhs = append(lhs, text(n.Key.Pos(), n.Key.End()))
				rhs = append(rhs, ev+".K")
			}
			if !blank(n.Value) {
				lhs = append(lhs, text(n.Value.Pos(), n.Value.End()))
				rhs = append(rhs, ev+".V")
			}
			pre := fmt.Sprintf(" _ = %s; ", ev)
			if len(lhs) > 0 {
				tok := ":="
				if n.Tok == token.ASSIGN {
					tok = "="
				}
				pre += fmt.Sprintf("%s %s %s; ", strings.Join(lhs, ", "), tok, strings.Join(rhs, ", "))
			}
			ins(n.Body.Lbrace+1, pre+"{")
			ins(n.Body.Rbrace, "}")
		case *ast.CallExpr:
			sel, ok := n.Fun.(*ast.SelectorExpr)
			if !ok {
				return true
			}
			// package-level function seams
			if id, ok := sel.X.(*ast.Ident); ok {
				if pn, ok := info.Uses[id].(*types.PkgName); ok {
					if m := funcSeams[pn.Imported().Path()]; m != nil {
						if repl, ok := m[sel.Sel.Name]; ok {
							record("func", base+":"+pn.Imported().Path()+"."+sel.Sel.Name, n.Pos())
							keepAlive[id.Name+"."+sel.Sel.Name] = true
							add(sel.Pos(), sel.End(), simAlias+"."+repl)
							return true
						}
					}
					return true
				}
			}
			// method seams
			selInfo := info.Selections[sel]
			if selInfo == nil || selInfo.Kind() != types.MethodVal {
				return true
			}
			recv := selInfo.Recv()
			mname := sel.Sel.Name
			switch {
			case isTypeutilMap(recv) && (mname == "Iterate" || mname == "Keys"):
				name := siteName(n.Pos(), mname)
				record("iter-tmap", name, n.Pos())
				fn := "TIterate"
				sep := ", "
				if mname == "Keys" {
					fn = "TKeys"
					sep = ""
				}
				ins(n.Pos(), fmt.Sprintf("%s.%s(", simAlias, fn))
				add(sel.X.End(), n.Lparen+1, fmt.Sprintf(", %q%s", name, sep))
			case isNamed(recv, "reflect", "Value") && mname == "MapKeys":
				name := siteName(n.Pos(), "MapKeys")
				record("iter-reflect", name, n.Pos())
				ins(n.Pos(), fmt.Sprintf("%s.RMapKeys(", simAlias))
				add(sel.X.End(), n.Lparen+1, fmt.Sprintf(", %q", name))
			case isNamed(recv, "os", "File") && (mname == "Write" || mname == "WriteString"):
				record("method", base+":os.File."+mname, n.Pos())
				ins(n.Pos(), fmt.Sprintf("%s.F%s(", simAlias, mname))
				add(sel.X.End(), n.Lparen+1, ", ")
			case isNamed(recv, "os", "File") && (mname == "Close" || mname == "Sync") && len(n.Args) == 0:
				record("method", base+":os.File."+mname, n.Pos())
				ins(n.Pos(), fmt.Sprintf("%s.F%s(", simAlias, mname))
				add(sel.X.End(), n.Lparen+1, "")
			}
		case *ast.AssignStmt:
			for _, l := range n.Lhs {
				ix, ok := l.(*ast.IndexExpr)
				if !ok {
					continue
				}
				t := info.TypeOf(ix.X)
				if t == nil {
					continue
				}
				mt, ok := t.Underlying().(*types.Map)
				if !ok || !needsSerial(mt.Key()) {
					continue
				}
				record("serial", base+":"+fset.Position(ix.Pos()).String(), ix.Pos())
				ins(ix.Index.Pos(), simAlias+".Seen(")
				ins(ix.Index.End(), ")")
			}
		}
		return true
	})
	if len(edits) == 0 {
		return nil, nil
	}
	// import + keep-alive references for imports that may have lost their last use
	var tail strings.Builder
	tail.WriteString("\n")
	var ka []string
	for k := range keepAlive {
		ka = append(ka, k)
	}
	sort.Strings(ka)
	for _, k := range ka {
		fmt.Fprintf(&tail, "var _ = %s\n", k)
	}
	// insert the import right after the package clause's name
	ins(f.Name.End(), fmt.Sprintf("\n\nimport %s %q\n", simAlias, simImport))

	sort.SliceStable(edits, func(i, j int) bool {
		if edits[i].at != edits[j].at {
			return edits[i].at < edits[j].at
		}
		// pure insertions at the same offset keep creation order, and go before a replacement starting there
		ai, aj := edits[i].end == edits[i].at, edits[j].end == edits[j].at
		if ai != aj {
			return ai
		}
		return edits[i].seq < edits[j].seq
	})
	var out bytes.Buffer
	cur := 0
	for _, e := range edits {
		if e.at < cur {
			return nil, fmt.Errorf("instrument: overlapping edits in %s at offset %d", filename, e.at)
		}
		out.Write(src[cur:e.at])
		out.WriteString(e.text)
		cur = e.end
	}
	out.Write(src[cur:])
	out.WriteString(tail.String())
	res, err := format.Source(out.Bytes())
	if err != nil {
		os.WriteFile(filename+".verif-broken", out.Bytes(), 0666)
		return nil, fmt.Errorf("instrument: rewritten %s does not parse: %v", filename, err)
	}
	if err := os.WriteFile(filename, res, 0666); err != nil {
		return nil, err
	}
	return sites, nil
}
