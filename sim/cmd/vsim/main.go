// vsim is the deterministic simulator for google/wire (see /verif/DESIGN.md).
package main

import (
	"encoding/json"
	"fmt"
	"os"

	"verif/sim/internal/common"
	"verif/sim/internal/instrument"
)

func usage() {
	fmt.Fprintln(os.Stderr, `usage:
  vsim instrument <dir>                 insert seams into a scratch copy (prints the sites)
  vsim check <Cxx> quick|thorough       run a property check
  vsim replay <file>                    replay a violation file
  vsim selftest determinism|transparency|reach`)
	os.Exit(2)
}

func main() {
	if len(os.Args) < 2 {
		usage()
	}
	switch os.Args[1] {
	case "instrument":
		if len(os.Args) != 3 {
			usage()
		}
		sites, err := instrument.Run(os.Args[2])
		if err != nil {
			fmt.Fprintln(os.Stderr, err)
			os.Exit(2)
		}
		enc := json.NewEncoder(os.Stdout)
		enc.SetIndent("", " ")
		enc.Encode(sites)
	case "check":
		if len(os.Args) != 4 {
			usage()
		}
		common.Exit(runCheck(os.Args[2], os.Args[3]))
	case "replay":
		if len(os.Args) != 3 {
			usage()
		}
		common.Exit(runReplay(os.Args[2]))
	case "liststeps":
		var n int
		fmt.Sscan(os.Args[3], &n)
		listSteps(os.Args[2], n)
	case "listcases":
		// vsim listcases <prop> <n>: the initial packages of the first n histories of engine C (no execution)
		var n int
		fmt.Sscan(os.Args[3], &n)
		listCases(os.Args[2], n)
	case "debugcase":
		common.Exit(runDebugCase(os.Args[2], os.Args[3]))
	case "selftest":
		if len(os.Args) < 3 {
			usage()
		}
		common.Exit(runSelftest(os.Args[2], os.Args[3:]))
	default:
		usage()
	}
}
