package main

import (
	"fmt"
	"os"

	"verif/sim/internal/common"
	"verif/sim/internal/enga"
	"verif/sim/internal/engb"
	"verif/sim/internal/engc"
)

func runCheck(prop, tier string) int {
	if tier != "quick" && tier != "thorough" {
		usage()
	}
	switch prop {
	case "C17", "C18", "C19":
		return engc.Check(prop, tier)
	case "C03", "C04":
		return enga.Check(prop, tier)
	case "C16":
		return engb.Check(tier)
	}
	fmt.Fprintf(os.Stderr, "no engine for %s\n", prop)
	return 2
}

func runReplay(path string) int {
	os.Setenv("VERIF_REPLAY_PATH", path)
	r := common.ReadReplay(path)
	switch r.Engine {
	case "C":
		return engc.Replay(r)
	case "A":
		return enga.Replay(r)
	case "B":
		return engb.Replay(r)
	}
	fmt.Fprintf(os.Stderr, "unknown engine %q in replay file\n", r.Engine)
	return 2
}

func runSelftest(which string, args []string) int {
	switch which {
	case "determinism":
		return selftestDeterminism(args)
	case "transparency":
		return selftestTransparency()
	case "warm":
		b := common.Prepare("warm", true)
		fmt.Printf("built %s and %s (%d seam sites)\n", b.WireSim, b.WireReal, len(b.Sites))
		return 0
	}
	return 2
}

func runDebugCase(prop, idx string) int {
	var i int
	fmt.Sscan(idx, &i)
	b := common.Prepare("debug", false)
	e := engc.NewEngine(b, prop)
	c := engc.GenCase(common.Rng(common.Seed(), i), prop, false)
	dir := b.Root + "/case"
	os.MkdirAll(dir, 0777)
	fmt.Println("layout:", c.Layout, "pkgs:", c.Pkgs)
	out := e.RunCase(c, dir)
	for _, l := range out.Log {
		fmt.Println(l)
	}
	fmt.Println("infra:", out.Infra)
	return 0
}

func listCases(prop string, n int) {
	for i := 0; i < n; i++ {
		c := engc.GenCase(common.Rng(common.Seed(), i), prop, false)
		fmt.Printf("case %d layout=%s pkgs=%v steps=%d\n", i, c.Layout, c.Pkgs, len(c.Steps))
	}
}

func init() {
	_ = listSteps
}

func listSteps(prop string, n int) {
	for i := 0; i < n; i++ {
		c := engc.GenCase(common.Rng(common.Seed(), i), prop, false)
		for _, st := range c.Steps {
			if st.Op == "cmd" {
				fmt.Printf("case %d: %s\n", i, st)
			}
		}
	}
}
