package main

import (
	"bytes"
	"fmt"
	"os"
	"os/exec"
	"path/filepath"
	"strings"

	"verif/sim/internal/common"
	"verif/sim/internal/engb"
)

// selftestDeterminism runs every engine several times with the same seed in
// separate processes at different worker counts and GOMAXPROCS values and
// requires byte-identical canonical run logs.
func selftestDeterminism(args []string) int {
	self, err := os.Executable()
	if err != nil {
		common.Infra("%v", err)
	}
	tmp, err := os.MkdirTemp(common.ScratchBase(), "verif-det-")
	if err != nil {
		common.Infra("%v", err)
	}
	common.RegisterCleanup(tmp)
	if data, err := os.ReadFile(filepath.Join(common.VerifDir(), "KNOWN_FINDINGS.txt")); err == nil {
		os.WriteFile(filepath.Join(tmp, "KNOWN_FINDINGS.txt"), data, 0666)
	}
	props := []string{"C03", "C16", "C17", "C18", "C19"}
	if len(args) > 0 {
		props = args
	}
	seeds := []string{"1", "7", "12345"}
	type cfg struct{ workers, gmp string }
	cfgs := []cfg{{"16", "16"}, {"4", "4"}, {"16", "1"}, {"1", "16"}}
	bad := 0
	for _, prop := range props {
		for _, seed := range seeds {
			var ref []byte
			for ci, c := range cfgs {
				logf := filepath.Join(tmp, fmt.Sprintf("%s-%s-%d.log", prop, seed, ci))
				cmd := exec.Command(self, "check", prop, "quick")
				cases := "10"
				if c.workers == "1" {
					cases = "10" // same cases, just slower
				}
				cmd.Env = append(os.Environ(), "VERIF_DIR="+tmp, "VERIF_SEED="+seed, "VERIF_WORKERS="+c.workers, "GOMAXPROCS="+c.gmp, "VERIF_CASES="+cases, "VERIF_LOG="+logf)
				out, err := cmd.CombinedOutput()
				if err != nil {
					if ee, ok := err.(*exec.ExitError); !ok || ee.ExitCode() != 1 {
						fmt.Printf("%s\n", out)
						common.Infra("determinism: %s seed %s (%s workers, GOMAXPROCS %s) did not run: %v", prop, seed, c.workers, c.gmp, err)
					}
				}
				data, err := os.ReadFile(logf)
				if err != nil {
					common.Infra("determinism: no run log: %v", err)
				}
				if ci == 0 {
					ref = data
					fmt.Printf("determinism %s seed=%s: reference log %d bytes\n", prop, seed, len(data))
					continue
				}
				if !bytes.Equal(ref, data) {
					bad++
					fmt.Printf("NONDETERMINISM: %s seed=%s workers=%s GOMAXPROCS=%s differs from the reference run\n", prop, seed, c.workers, c.gmp)
					fmt.Println(firstLogDiff(string(ref), string(data)))
				}
			}
		}
	}
	if bad > 0 {
		fmt.Printf("determinism self-test FAILED: %d differing run(s)\n", bad)
		return common.ExitInfra
	}
	fmt.Printf("determinism self-test passed: %d properties x %d seeds x %d process configurations, logs byte-identical\n", len(props), len(seeds), len(cfgs))
	return 0
}

func firstLogDiff(a, b string) string {
	la, lb := strings.Split(a, "\n"), strings.Split(b, "\n")
	for i := 0; i < len(la) && i < len(lb); i++ {
		if la[i] != lb[i] {
			return fmt.Sprintf("line %d:\n  ref: %s\n  got: %s", i+1, la[i], lb[i])
		}
	}
	return fmt.Sprintf("lengths differ: %d vs %d lines", len(la), len(lb))
}

// selftestTransparency: the seams change nothing but the choices they own.
func selftestTransparency() int {
	b := common.Prepare("transp", true)
	return engb.Transparency(b)
}
