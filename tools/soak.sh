#!/bin/bash
# tools/soak.sh <hours> [props...] : background search for violations on the unchanged tree with fresh seeds.
# Runs `./check <prop> thorough` with VERIF_SEED = 1000, 1001, ... round-robin over the properties until the time is
# used up; evidence goes to a throw-away directory (the committed evidence must come from the registered commands).
# Prints one line per run; a VIOLATION line means: triage it (DESIGN.md section 6: genuine defect or false alarm).
set -u
cd "$(dirname "$0")/.."
hours=${1:-1}; shift || true
props=${*:-C03 C16 C17 C18 C19 C04}
export VERIF_EVIDENCE_DIR=$(mktemp -d /tmp/verif-soak-evidence-XXXXXX)
trap 'rm -rf "$VERIF_EVIDENCE_DIR"' EXIT
end=$(( $(date +%s) + ${hours%.*} * 3600 ))
seed=1000
while [ $(date +%s) -lt $end ]; do
  for p in $props; do
    [ $(date +%s) -lt $end ] || break
    out=$(VERIF_SEED=$seed ./check $p thorough 2>&1); code=$?
    echo "seed=$seed $p exit=$code $(echo "$out" | grep -E "^$p:" | cut -c1-200)"
    echo "$out" | grep -E "^(VIOLATION|violated clause|INFRA|note:)" | cut -c1-400
  done
  seed=$((seed+1))
done
