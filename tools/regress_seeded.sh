#!/bin/bash
# sensitivity regression: every seeded change that still applies to /repo HEAD, against the check of its property
cd /verif
for d in seeded/C*/; do
  id=$(basename $d); prop=${id%%-*}
  if git -C /repo apply --check /verif/$d/patch.diff 2>/dev/null; then
    out=$(MUT_WT=/tmp/verif-mut-wt-seedreg VERIF_WORKERS=6 tools/mutrun.sh /verif/$d/patch.diff $prop 2>&1 | grep -E "^(==|VIOLATION)" | tr '\n' ' ' | cut -c1-200)
    echo "$id: $out"
  else
    echo "$id: does not apply to the current HEAD (skipped)"
  fi
done
git -C /repo worktree remove --force /tmp/verif-mut-wt-seedreg 2>/dev/null
echo "### done"
