#!/bin/bash
# tools/mutrun.sh <patch.diff> <property>... : apply a seeded change to /repo, run the quick checks, undo it.
# Evidence files written meanwhile are restored from git.
set -u
patch0="$(readlink -f "$1")"; cd "$(dirname "$0")/.."
patch="$patch0"; shift
if [ -n "$(git -C /repo status --porcelain)" ]; then echo "/repo not clean" >&2; exit 2; fi
git -C /repo apply "$patch" || { echo "patch does not apply" >&2; exit 2; }
trap 'git -C /repo checkout -- . ; git -C /verif checkout -- evidence 2>/dev/null' EXIT
for p in "$@"; do
  out=$(VERIF_TIER=${TIER:-quick} ./check "$p" ${TIER:-quick} 2>&1); code=$?
  echo "$out" | grep -E "^(VIOLATION|KNOWN-FINDING|violated clause|INFRA|C[0-9]+:)" | cut -c1-400
  echo "== $p exit=$code"
done
