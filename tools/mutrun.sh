#!/bin/bash
# tools/mutrun.sh <patch.diff> <property>... : run the quick checks against google/wire WITH a seeded change.
# The change is applied to a scratch worktree of /repo (never to /repo itself) and the checks are pointed at it
# through VERIF_REPO; the worktree is reset afterwards. Evidence files of these runs go to a throw-away directory (VERIF_EVIDENCE_DIR).
# VALIDATE=1 additionally runs the pinned test suite on the changed tree first.
set -u
patch="$(readlink -f "$1")"; shift
cd "$(dirname "$0")/.."
WT=${MUT_WT:-/tmp/verif-mut-wt}
if [ ! -e "$WT/.git" ]; then git -C /repo worktree prune; git -C /repo worktree add -q --detach "$WT" HEAD || exit 2; fi
git -C "$WT" checkout -q --detach "$(git -C /repo rev-parse HEAD)" && git -C "$WT" checkout -q -- . && git -C "$WT" clean -qfd
git -C "$WT" apply "$patch" || { echo "patch does not apply" >&2; exit 2; }
export VERIF_EVIDENCE_DIR=$(mktemp -d /tmp/verif-mut-evidence-XXXXXX)
trap 'git -C "$WT" checkout -q -- . ; git -C "$WT" clean -qfd; rm -rf "$VERIF_EVIDENCE_DIR"' EXIT
export GOFLAGS=-mod=mod GOPROXY=off GOSUMDB=off GOTOOLCHAIN=local
if [ -n "${VALIDATE:-}" ]; then
  (cd "$WT" && go build ./... ) || { echo "== INVALID: does not build"; exit 3; }
  fails=$(cd "$WT" && go test -vet=off -count=1 -json ./... 2>/dev/null | python3 -c "
import sys,json
f=[]
for l in sys.stdin:
    try: e=json.loads(l)
    except: continue
    if e.get('Test') and e.get('Action')=='fail': f.append(e['Test'])
print(' '.join(sorted(f)))")
  if [ "$fails" != "TestWire TestWire/UnexportedStruct" ]; then echo "== INVALID: pinned suite changed: failing tests: $fails"; exit 3; fi
  echo "== valid: builds, pinned suite unchanged"
fi
for p in "$@"; do
  out=$(VERIF_REPO="$WT" ./check "$p" ${TIER:-quick} 2>&1); code=$?
  echo "$out" | grep -E "^(VIOLATION|KNOWN-FINDING|violated clause|INFRA|C[0-9]+:)" | cut -c1-300
  echo "== $p exit=$code"
done
