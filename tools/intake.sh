#!/bin/bash
# tools/intake.sh <id> <property>... : confirm a sub-agent's seeded change and run the checks against it.
#   expects /tmp/mut/<id>-out/{patch.diff,demo/run.sh,notes.md}
#   1. the patch applies to a clean scratch worktree of /repo HEAD, builds, pinned suite unchanged (mutrun VALIDATE=1)
#   2. the demo exits 0 on an unchanged checkout and non-zero on the changed one
#   3. the quick checks of the named properties are run against the changed tree
# Results go to /tmp/mut/<id>-out/intake.log; nothing is copied into /verif/seeded (do that by hand after reading the log).
set -u
id="$1"; shift
out=/tmp/mut/$id-out
log=$out/intake.log
cd "$(dirname "$0")/.."
export GOFLAGS=-mod=mod GOPROXY=off GOSUMDB=off GOTOOLCHAIN=local
{
  echo "== intake $id $(date -u +%H:%M:%S)"
  base=/tmp/mut/$id-intake-base; chg=/tmp/mut/$id-intake-chg
  rm -rf "$base" "$chg"; mkdir -p "$base" "$chg"
  git -C /repo archive HEAD | tar -x -C "$base"
  git -C /repo archive HEAD | tar -x -C "$chg"
  (cd "$chg" && git init -q . && git apply "$out/patch.diff") || { echo "== INVALID: patch does not apply to HEAD"; rm -rf "$base" "$chg"; exit 3; }
  rm -rf "$chg/.git"
  echo "-- demo on the unchanged checkout"
  timeout 900 bash "$out/demo/run.sh" "$base" > "$out/demo-base.out" 2>&1; b=$?
  tail -n 3 "$out/demo-base.out"
  echo "-- demo on the changed checkout"
  timeout 900 bash "$out/demo/run.sh" "$chg" > "$out/demo-chg.out" 2>&1; c=$?
  tail -n 6 "$out/demo-chg.out"
  echo "== demo: unchanged exit=$b changed exit=$c"
  rm -rf "$base" "$chg"
  if [ $b -ne 0 ] || [ $c -eq 0 ]; then echo "== INVALID: demo does not discriminate"; fi
  MUT_WT=/tmp/verif-mut-wt-$id VALIDATE=1 tools/mutrun.sh "$out/patch.diff" "$@"
  git -C /repo worktree remove --force /tmp/verif-mut-wt-$id 2>/dev/null
} 2>&1 | tee "$log"
