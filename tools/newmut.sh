#!/bin/bash
# tools/newmut.sh <id> : create a scratch worktree /tmp/mut/<id> of /repo HEAD and an output dir
set -eu
id="$1"
mkdir -p /tmp/mut
git -C /repo worktree add -q --detach /tmp/mut/$id HEAD
mkdir -p /tmp/mut/$id-out
echo /tmp/mut/$id
