#!/bin/bash
# final false-alarm regression: every benign patch that still applies to /repo HEAD, against C17 C19 C16
cd /verif
for d in seeded/benign/*/; do
  p=$d/patch.diff
  [ -f $d/patch.rebased-on-6fca627.diff ] && p=$d/patch.rebased-on-6fca627.diff
  if git -C /repo apply --check /verif/$p 2>/dev/null; then
    out=$(MUT_WT=/tmp/verif-mut-wt-benreg VERIF_WORKERS=6 tools/mutrun.sh /verif/$p C17 C19 2>&1 | grep -E "^(==|VIOLATION|violated clause|INFRA)" | cut -c1-200)
    echo "### $d"; echo "$out"
  else
    echo "### $d : does not apply to the current HEAD (skipped)"
  fi
done
git -C /repo worktree remove --force /tmp/verif-mut-wt-benreg 2>/dev/null
echo "### done"
