#!/bin/bash
# tools/cover.sh [props...] : DIAGNOSTIC, not a check. Builds the instrumented wire with -cover, runs the quick
# checks of the named properties (default: all six) and prints which statements of internal/wire and cmd/wire
# the workloads never executed (crash paths via os.Exit(137) lose their counters; that only under-reports).
set -u
cd "$(dirname "$0")/.."
export GOFLAGS=-mod=mod GOPROXY=off GOSUMDB=off GOTOOLCHAIN=local
cov=$(mktemp -d /tmp/verif-cov-XXXXXX)
export VERIF_EVIDENCE_DIR=$cov/evidence
trap 'rm -rf "$cov"' EXIT
props=${*:-C03 C16 C17 C18 C19}
for p in $props; do
  VERIF_COVER=1 GOCOVERDIR=$cov/data ./check $p quick > $cov/$p.log 2>&1 & pid=$!
  mkdir -p $cov/data; wait $pid; echo "$p exit=$?"
done
go tool covdata textfmt -i=$cov/data -o $cov/prof 2>/dev/null || { echo "no coverage data"; exit 2; }
# function and line attribution needs the INSTRUMENTED sources (the seams shift lines): rebuild that tree
rsync -a --exclude=.git /repo/ $cov/tree/ && bin/vsim instrument $cov/tree > /dev/null || exit 2
(cd $cov/tree && go tool cover -func=$cov/prof | sort -k3 -n | awk '$3+0 < 100.0' )
echo "== uncovered blocks (instrumented sources)"
grep ' 0$' $cov/prof | sed 's/ [0-9]* 0$//' | sort -u | while IFS=: read f r; do
  a=${r%%.*}; f2=${f#github.com/google/wire/}
  printf "%s:%s  " "$f2" "$r"; sed -n "${a}p" $cov/tree/$f2 | cut -c1-110
done
